#!/usr/bin/env python3
"""Regenerates MANIFEST.json from the table below (single source of truth)."""
import json, os

LANG_NOTE = ("Trusted base: Go toolchain; the enumerators in harness/internal/lang; the stated alphabets and bounds. "
             "Every case is an execution of the real lexer/parser/formatter built from /repo's working tree in crash-isolated workers; no model.")

CHECKS = {
 "C06": dict(engine="langmc", cat="model_checking", ref="§2.3, §3 C06",
   technique="bounded-exhaustive enumeration of structures x admissible layouts (<=k deviations) executed on the real parser, compared with the generating structure",
   text="Every abstract spokfile of the stated small scope is rendered in every admissible layout with <=1 (quick) / <=2 (thorough) deviating sections and parsed by the real parser; the tree must equal the generating structure. Exhaustive within the bound, not sampled.",
   note=LANG_NOTE),
 "C07": dict(engine="langmc", cat="model_checking", ref="§2.3, §3 C07",
   technique="bounded-exhaustive input enumeration (class-alphabet strings, structures x layouts, edit neighbourhoods) with a parse/format/reparse oracle on the real code",
   text="Every input of three finite spaces (all strings <=5/6 symbols over the 25-class alphabet; small structures in all layouts incl. extended ones; all single (thorough: double) edits of canonical renderings and of the repository's spokfiles) that parses is formatted and re-parsed; variables and tasks must be unchanged.",
   note=LANG_NOTE),
 "C08": dict(engine="langmc", cat="model_checking", ref="§2.3, §3 C08",
   technique="bounded-exhaustive input enumeration in crash-isolated workers (termination, crash, determinism, located-error oracle); schedule part via controlled scheduler",
   text="Every input of the three finite spaces (incl. invalid UTF-8 and all truncations) is parsed twice in a worker process whose death or lack of progress is itself an observed outcome; errors must cite an in-range line and quote it.",
   note=LANG_NOTE + " Hang detection: in-worker progress watchdog (25 s without completing a case that normally takes microseconds), confirmed twice on the single input."),
 "C11": dict(engine="langmc", cat="model_checking", ref="§2.3, §3 C11",
   technique="bounded-exhaustive input enumeration with format(format(x)) == format(x) oracle on the real formatter",
   text="Same three finite input spaces as C07; for every input that parses and whose formatted text re-parses, formatting twice must equal formatting once byte for byte.",
   note=LANG_NOTE),
 "C15": dict(engine="langmc", cat="model_checking", ref="§2.3, §3 C15",
   technique="bounded-exhaustive input enumeration with a comment/docstring-skeleton oracle across the format round trip",
   text="Same three finite input spaces as C07 with comments in every syntactic position; the sequence of non-empty comments and (statement, docstring) pairs must be identical before and after format+reparse.",
   note=LANG_NOTE),
 "C16": dict(engine="langmc", cat="model_checking", ref="§2.3, §3 C16",
   technique="bounded-exhaustive input enumeration with a token-tiling oracle on the real lexer's token stream",
   text="Every input of the three finite spaces is lexed with the real lexer; each token must be the exact slice at its offset, offsets increasing with only whitespace between, line = 1 + newlines before, clean scans end in EOF at len(input).",
   note=LANG_NOTE),
}

NOT_YET = {}

ALL = ["C%02d" % i for i in range(1, 21)]

def main():
    here = os.path.dirname(os.path.abspath(__file__))
    checks = []
    for pid in ALL:
        c = CHECKS.get(pid)
        if not c:
            continue
        checks.append({
            "property_id": pid,
            "quick_cmd": "./check %s quick" % pid,
            "thorough_cmd": "./check %s thorough" % pid,
            "evidence_file": "/verif/evidence/%s.json" % pid,
            "replay_cmd_template": "./check --replay {path}",
            "engine": c["engine"],
            "level_claimed": {"category": c["cat"], "text": c["text"], "design_ref": c["ref"]},
            "level_note": c["note"],
            "technique": c["technique"],
        })
    na = [{"property_id": p, "reason": NOT_YET.get(p, "check not built yet in this round (see DESIGN.md §3 for the planned exhaustive exploration); nothing is claimed")}
          for p in ALL if p not in CHECKS]
    m = {
        "version": 1,
        "setup_cmd": "./check setup",
        "hooks": {
            "guard": "verif",
            "enable": "go build -tags verif [-overlay <generated json>] from /verif/harness with replace github.com/FollowTheProcess/spok => /repo; no hook lives in /repo, instrumentation is injected with go build -overlay (controlled dag iteration, rewritten hash/lexer channel operations, virtual package zzverif/vsched)",
            "baseline_off_cmd": "cd /repo && GOFLAGS=-mod=mod GOPROXY=off GOSUMDB=off GOTOOLCHAIN=local go test -json -vet=off -count=1 -timeout 25m ./...",
            "source_commits": [],
            "add_only": True,
        },
        "engines": [
            {"name": "langmc", "path": "harness/cmd/mc/langmc.go, harness/internal/lang", "serves_properties": ["C06", "C07", "C08", "C11", "C15", "C16"],
             "kind_free_text": "bounded-exhaustive enumeration of lexer/parser/formatter inputs executed on the real code in crash-isolated workers"},
        ],
        "checks": checks,
        "not_applicable": na,
        "notes": "See DESIGN.md. Every check enumerates a stated finite space exhaustively on code built from /repo's working tree; evidence files report the bound completed.",
    }
    with open(os.path.join(here, "MANIFEST.json"), "w") as f:
        json.dump(m, f, indent=1)
        f.write("\n")

if __name__ == "__main__":
    main()
