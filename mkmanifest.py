#!/usr/bin/env python3
"""Regenerates MANIFEST.json from the table below (single source of truth)."""
import json, os

LANG_NOTE = ("Trusted base: Go toolchain; the enumerators in harness/internal/lang; the stated alphabets and bounds. "
             "Every case is an execution of the real lexer/parser/formatter built from /repo's working tree in crash-isolated workers; no model.")

CHECKS = {
 "C06": dict(engine="langmc", cat="model_checking", ref="§2.3, §3 C06",
   technique="bounded-exhaustive enumeration of structures x admissible layouts (<=k deviations) executed on the real parser, compared with the generating structure",
   text="Every abstract spokfile of the stated small scope (incl. dependency, output and argument lists of 9-33 entries next to further lists) is rendered in every admissible layout with <=1 (quick) / <=2 (thorough) deviating sections and parsed by the real parser; the tree must equal the generating structure. Exhaustive within the bound, not sampled.",
   note=LANG_NOTE),
 "C07": dict(engine="langmc", cat="model_checking", ref="§2.3, §3 C07",
   technique="bounded-exhaustive input enumeration (class-alphabet strings, structures x layouts, edit neighbourhoods) with a parse/format/reparse oracle on the real code",
   text="Every input of three finite spaces (all strings <=5/6 symbols over the 25-class alphabet; small structures in all layouts incl. extended ones; all single (thorough: double) edits of canonical renderings and of the repository's spokfiles) that parses is formatted and re-parsed; variables and tasks must be unchanged. A corpus of about 2000 files (space-, tab-indented, CRLF) is also formatted in place by `spok --fmt` of the built binary and held to the same oracle.",
   note=LANG_NOTE),
 "C08": dict(engine="langmc", cat="model_checking", ref="§2.3, §3 C08, §9",
   technique="bounded-exhaustive input enumeration in crash-isolated workers (termination, crash, determinism, located-error oracle); schedule part via controlled scheduler",
   text="Every input of the finite spaces (alphabet strings incl. invalid UTF-8, structures x layouts, all truncations and edits, every byte value at every position of a few programs, short strings next to 70000-byte lines) is parsed twice in a worker process whose death or lack of progress is itself an observed outcome; errors must cite an in-range line and quote it. Schedule part: every interleaving of lexer goroutine and parser (controlled scheduler over the rewritten lexer) for all strings of <=3 (4) symbols. Supplementary: the same two goroutines free-running under the race detector over ~80000 inputs, then every lexer-error input parsed by four goroutines at once and compared with the parse alone (reports only, never decides).",
   note=LANG_NOTE + " Hang detection: in-worker progress watchdog (25 s without completing a case that normally takes microseconds), confirmed twice on the single input."),
 "C11": dict(engine="langmc", cat="model_checking", ref="§2.3, §3 C11",
   technique="bounded-exhaustive input enumeration with format(format(x)) == format(x) oracle on the real formatter",
   text="Same three finite input spaces as C07; for every input that parses and whose formatted text re-parses, formatting twice must equal formatting once byte for byte. Through the built binary: a second `spok --fmt` leaves each of about 2000 files byte-identical.",
   note=LANG_NOTE),
 "C15": dict(engine="langmc", cat="model_checking", ref="§2.3, §3 C15",
   technique="bounded-exhaustive input enumeration with a comment/docstring-skeleton oracle across the format round trip",
   text="Same three finite input spaces as C07 with comments in every syntactic position; the sequence of non-empty comments and (statement, docstring) pairs must be identical before and after format+reparse, and before and after `spok --fmt` of the built binary on about 2000 files incl. tab-indented ones and comments holding runs of blanks and tabs.",
   note=LANG_NOTE),
 "C16": dict(engine="langmc", cat="model_checking", ref="§2.3, §3 C16",
   technique="bounded-exhaustive input enumeration with a token-tiling oracle on the real lexer's token stream",
   text="Every input of the three finite spaces is lexed with the real lexer; each token must be the exact slice at its offset, offsets increasing with only whitespace between, line = 1 + newlines before, clean scans end in EOF at len(input).",
   note=LANG_NOTE),
}

CFG_NOTE = ("Trusted base: Go toolchain; the small reference functions in the harness (transitive closure + cycle test / doublestar.Match over a full walk / nearest-enclosing search); tmpfs semantics. "
            "Every case is an execution of the real code built from /repo's working tree in a sandbox under /dev/shm as uid nobody; no model.")
CHECKS.update({
 "C03": dict(engine="cfgmc-c03", cat="model_checking", ref="§2.4, §3 C03",
   technique="exhaustive enumeration of task graphs x request lists x map-iteration orders (controlled-iteration overlay of the dag package) executed on the real SpokFile.Run, against a closure/cycle reference",
   text="Every digraph on 1-3 vertices incl. self-loops (thorough: also all 65536 on 4 vertices, each with one failing task for <=3) x every request list x every iteration order the topological sort may meet (explicit choice points instead of Go's map randomisation), plus undefined names at depth 1/2, duplicate definitions, variables and files spelled like tasks, task names that are prefixes of one another or read like commands (clean, help, default, ...) and families up to 8 vertices; a command-line part requests tasks named like sub-commands and flags through the built binary. The run must be exactly the closure, once each, dependencies first, and bad graphs must be errors that run nothing.",
   note=CFG_NOTE + " Map iteration order is modelled as an arbitrary permutation chosen by the explorer (superset of what the Go runtime does)."),
 "C05": dict(engine="cfgmc-c05", cat="model_checking", ref="§2.4, §3 C05",
   technique="exhaustive enumeration of directory trees (all subsets of a path pool) x glob patterns, expanded by the real code via file.New/Run/Globs, against a reference matcher over a full walk",
   text="Every subset of a 10-path pool (thorough 13) incl. hidden files/dirs at top level and nested x 20 (30) star patterns, each expanded three times (fresh, with .spok present, same SpokFile again); the regular files denoted must equal the reference exactly.",
   note=CFG_NOTE + " doublestar.Match is taken as the meaning of a pattern; patterns where Match and GlobWalk disagree inside the library (*/**) are left out."),
 "C17": dict(engine="cfgmc-c17", cat="model_checking", ref="§2.4, §3 C17",
   technique="exhaustive enumeration of directory chains x start x stop executed on the real file.Find, with a deterministic non-termination detector",
   text="All 12^4 chains of depth 4 x 4 start levels x 5 stops (each level, unrelated directory) Find calls (also with directories named '..d'; start and stop each in five spellings - clean, trailing slash, /., doubled separator, sub/.. - for the chains of bare levels, thorough: all chains and names sorting after 'spokfile'); through the binary: $HOME/$PWD spellings, links, a link to its own directory, unlistable directories; a third visit to the same directory is a non-termination verdict. For start at/below stop the answer is fully determined; otherwise termination and nearest-at-or-above-start are required.",
   note=CFG_NOTE),
})

HIST_NOTE = ("Trusted base: Go toolchain; the reference model (last successful input snapshot per task, updated from a harness-owned side-effect log); the controlled-iteration overlay of collections/dag; tmpfs. "
             "Every run transition is a real spok invocation (in-process parser.New/file.New/SpokFile.Run, a fresh SpokFile each time) on the materialised disk state.")
CHECKS.update({
 "C01": dict(engine="histmc", cat="model_checking", ref="§2.1, §3 C01",
   technique="explicit-state BFS to closure over (disk, reference-model) states, each transition executed by the real code, branching over every topological-sort iteration order and (flagged programs) every iteration order of spok's own task/variable maps with deviation bound 1; skip-soundness invariant on every run transition",
   text="For each of 29 programs (literal/glob/task dependencies, a pattern that matches a directory, shared files, file-less tasks, a file listed twice, a deletable dependency, task commands that rewrite or generate other tasks' inputs, declared outputs, symbolic links as inputs, literal names with pattern characters, task names like 'version', a task without commands, a spokfile that is edited between runs incl. dependency lists; thorough: plus every 1-task program and every 2-task program over {a.txt, *.src, sub/*.src}) the full state graph under the op alphabet {edit/create/revert/delete files, run any request list with/without force with any failing set, run with an unwritable cache file, remove cache} is explored to closure, i.e. all finite histories; every run op is also replayed through the built binary. For the programs named in the evidence every iteration of SpokFile.Tasks / SpokFile.Vars inside file/file.go is a choice point as well (controlled-iteration overlay; at most one iteration per invocation leaves sorted order). Every reported skip must match the model's last success.",
   note=HIST_NOTE),
 "C02": dict(engine="histmc", cat="model_checking", ref="§2.1, §3 C02",
   technique="same explicit-state closure as C01 with the converse oracle (unchanged since last success => skipped, file-less tasks always run)",
   text="Same exploration as C01; on every unforced error-free run transition every reached task whose inputs equal those of its last success must be skipped with no command executed, and file-less tasks must run. The corner where the task failed on these same inputs after that success is left unconstrained.",
   note=HIST_NOTE),
 "C14": dict(engine="histmc", cat="model_checking", ref="§2.1, §3 C14",
   technique="explicit-state closure computed twice (force-free alphabet, full alphabet): forced transitions must execute everything, and skip-soundness is checked in states only forced runs can reach",
   text="On every forced transition of the closure no task is skipped and every task of the run executes; skip-soundness violations on transitions from states outside the force-free closure (or on forced transitions) are reported here.",
   note=HIST_NOTE),
})

SCHED_NOTE = ("Trusted base: Go toolchain; the hand-written controlled scheduler and channel/WaitGroup model in harness/overlay/vsched; the mechanical source rewriter (harness/cmd/rewrite) that redirects channel, go, sync, NumCPU and os.Open/io.Copy uses of /repo/hash and /repo/lexer to it (regenerated from the working tree on every run, fails loudly on select); SHA-256. "
              "A cooperative scheduler cannot see unsynchronised memory accesses; yields at the I/O calls make hoisted shared state visible as schedule-dependent results.")
CHECKS.update({
 "C04": dict(engine="schedmc", cat="model_checking", ref="§2.2, §3 C04",
   technique="stateless exploration of every interleaving (preemption-bounded, thorough: unbounded with state-key pruning) of the real hash code under a controlled scheduler + exhaustive pairwise change-sensitivity over a file universe",
   text="For every list of <=3 (thorough 4) entries over a path universe (duplicates, permutations, a directory) x NumCPU in {1,2,3}, Hash is executed under every schedule within the bound; the digest must be one value per multiset of (path, content) across all schedules, orders and CPU counts. All collections of <=3 (4) files from a universe built from the code's shortcuts (prefix/concatenation names, same basename, empty, 70KB differing in last byte, a symbolic link, two canonically equivalent Unicode names, a file inside a directory called .spok) must have pairwise different digests, also when listed with duplicates. Environment corners on the real file system: re-pointed and swapped links, /proc/uptime (size 0 with content), GOMAXPROCS 1-4, files of 16/32/64 MiB touched and changed with size and time kept, two files on different file systems sharing an inode number. Free-running: lists of 0-261 and 1023-8200 files, each with single-file content changes (incl. same size and mtime), reversal and repeated calls; a free-running call must leave the list it was given as it was. The limit on open files is an environment answer: five lists (3 and 40 files, with and without a missing one) in a fresh process under soft limits 1024..8 - a shortage may turn a digest into an error, never into another digest or a digest for an unopenable file.",
   note=SCHED_NOTE),
 "C18": dict(engine="schedmc", cat="model_checking", ref="§2.2, §3 C18",
   technique="stateless exploration of every interleaving and every single injected open/read fault of the real hash code under a controlled scheduler with deadlock/leak/livelock/panic detection",
   text="Lists of <=3 entries of kinds {regular, directory, missing, dangling link, unreadable} in every position x NumCPU in {1,2,3} under every schedule within preemption bound 2 (1 for length 3; thorough 2 and unbounded for sizes 0..4 x NumCPU 1..4), plus <=1 (thorough 2) injected fault (open fails as vanished or as out-of-descriptors, copy fails mid-read, a 16 MiB file shrinks under a memory mapping): no deadlock, livelock, panic in any goroutine or goroutine left blocked; digest xor error; error whenever an entry could not be read. Free-running in fresh processes under open-file limits 1024, 256, 64, 33, 32, 24, 17, 16, 15, 12, 8: no crash, no hang, no goroutine left, no digest for a list with a missing file. Supplementary race-detector pass: every list shape alone and shared by four concurrent callers.",
   note=SCHED_NOTE + " Memory-level data races and 10^4-element lists are outside exhaustive reach (stated in DESIGN.md §6)."),
})

BIN_NOTE = ("Trusted base: Go toolchain; the small reference functions in the harness; recursive snapshots (path, type, mode, SHA-256) of the whole sandbox; tmpfs. "
            "Every case is an invocation of the spok binary built from /repo's working tree, run as uid nobody with cwd and HOME inside a sandbox under /dev/shm and a fully specified environment.")
CHECKS.update({
 "C09": dict(engine="cfgmc-c09", cat="model_checking", ref="§2.4, §3 C09",
   technique="exhaustive enumeration of program shapes x failing-command placements x statuses x modes through the built binary, each followed by a second run",
   text="Every (shape in {single, independent, chain, diamond leg, a task named clean / default / _gen, a chain of twelve}) x 1-3 commands per task x every single failing (task, position) x status in {1,2,127,255} (builtin exit, external process, death by signal; as or-list, subshell, brace group, if, negation, [[ ]]), every pair of failing commands, and failing runs in which everything before the failing task is up to date x mode in {plain, --quiet, --json, --force}: the invocation must exit non-zero and name a task that really failed; after switching the failure off, the next unforced run must not treat the failed task as up to date.",
   note=BIN_NOTE),
 "C12": dict(engine="cfgmc-c12", cat="model_checking", ref="§2.4, §3 C12",
   technique="exhaustive enumeration of output-declaration sets x project trees x clean-task presence through `spok --clean`, compared with a reference via whole-sandbox snapshots",
   text="Every set of <=2 (thorough: harmless triples too) output declarations over 35 kinds (literal, directory, nested, three globs, variables with relative / nested / join values, symbolic links, names with $ and ~ in them, and dangerous values: \"\", \".\", \"..\", variables holding them, the project dir, its parent - also spelled as absolute paths with trailing or doubled slashes, /sub/.. or /../. - the spokfile itself, a glob matching everything) x 10 trees (thorough 256) x with/without a clean task, further states of the cache directory, a clean task that cannot run, a project below a directory called ..w, task names next to --clean: removed paths must be a subset of the designated ones (equal when spok exits 0), never the spokfile, its directory or anything above; nothing else changes.",
   note=BIN_NOTE + " Relative outputs are read relative to the spokfile directory; runs are from the project root."),
 "C13": dict(engine="cfgmc-c13", cat="model_checking", ref="§2.4, §3 C13",
   technique="exhaustive enumeration of variable name x value x kind configurations through the built binary (--vars, template task, environment task), compared with textual substitution",
   text="Names {unset, HOME, ambient, .env, both} x 17 string values (blanks, $x, braces, =, #, quote, empty, non-ASCII, tab) / join part lists from root and nested cwd / exec with surrounding white space, terminal escapes, output on standard error only / failing exec, with and without a second variable, declared above, between or below the tasks, re-bound by an earlier command of the same task, of 128 KiB and more, empty-but-set, defined twice by the same exec text, referenced in six other spellings of the template language ({{ .NAME }}, {{- .NAME -}}, {{$.NAME}}, printf, pipeline, with), a spokfile without any variable whose command is a template: --vars value, the command text after {{.NAME}} substitution and the value of $NAME seen by the command must all be the spokfile value.",
   note=BIN_NOTE),
 "C19": dict(engine="cfgmc-c19", cat="model_checking", ref="§2.4, §3 C19",
   technique="full product of spokfile class x action x cwd x .gitignore x cache presence through the built binary between two whole-sandbox snapshots",
   text="12 spokfile classes (valid canonical/unformatted, variables only, syntax error, three load errors, parses-but-does-not-load, absent, directory, symlink, dangling symlink) x 23 command lines x root/nested cwd x .gitignore x earlier cache, further the spokfile's permission bits x the process umask, a cache directory that cannot be created (.spok is a file / the project directory is read-only), sibling files of the spokfile (.orig, .bak, ~, .swp, .tmp, .rej), seven endings of an existing .gitignore, --init combined with --spokfile, a cache directory that is only partly there, the project inside a git work tree with its own .gitignore above: every created/changed/removed path must be allowed by the action (.spok next to the spokfile; the spokfile's text, not its mode, for --fmt only when it parses and loads; cwd/spokfile and an appended .gitignore for --init).",
   note=BIN_NOTE + " Timestamps are not part of a snapshot."),
 "C20": dict(engine="cfgmc-c20", cat="model_checking", ref="§2.4, §3 C20",
   technique="exhaustive enumeration of small programs x report/listing flags through the built binary, compared with a harness-owned side-effect log",
   text="1-5 tasks x docstrings x default task x 0-2 commands (distinct stdout/stderr markers) x 0-2 variables x chain/independent x file dependencies, programs whose commands write 20 / 300 KiB to each stream (incl. CRLF, lone CR, tabs, trailing blanks, escape sequences, non-ASCII text, an unterminated last line), a template action that is not a variable reference in every command, and programs with docstrings and values longer than a terminal line listed on pseudo terminals of 40-132 columns as well as into a pipe, runs of blanks in docstrings and values (compared exactly), background jobs, a skipped task after an executed one, --json without task names, --quiet with --init/--fmt/--clean: --json (first and repeated run) must be one JSON list of exactly the run's tasks in execution order with skipped flags and per-command text/stdout/stderr/status; --quiet stdout empty; --show/--vars complete, sorted, with docstrings/values; no arguments runs default or lists.",
   note=BIN_NOTE + " JSON field names are not prescribed: fields are recognised by type and content."),
})

CHECKS.update({
 "C10": dict(engine="crashmc", cat="fault_enumeration", ref="§2.1, §3 C10",
   technique="exhaustive crash-point enumeration: strace log of every mutating syscall of a run = the device log; every prefix and every torn cache write is a crash state, continued with every edit x unforced run on the real code against the crash-updated reference model",
   text="For every state of the force-free/failure-free closure of each program and every run from it (every topological-sort order; also the forced run of each single task) the run is executed under strace; every prefix of its mutating-syscall log (cache writes interleaved with task markers) and every torn version of each cache write (quick: token boundaries; thorough: every byte) is materialised as a crash state and continued with {no edit, each edit} x each unforced run. Each continuation must stop with an explicit cache error or be skip-sound against the model in which exactly the tasks whose last marker lies inside the prefix have completed.",
   note=HIST_NOTE + " Plus: strace's log is complete for the calls spok makes; SIGKILL loses no completed syscall; one kill per history."),
})

NOT_YET = {}

ALL = ["C%02d" % i for i in range(1, 21)]

def main():
    here = os.path.dirname(os.path.abspath(__file__))
    checks = []
    for pid in ALL:
        c = CHECKS.get(pid)
        if not c:
            continue
        checks.append({
            "property_id": pid,
            "quick_cmd": "./check %s quick" % pid,
            "thorough_cmd": "./check %s thorough" % pid,
            "evidence_file": "/verif/evidence/%s.json" % pid,
            "replay_cmd_template": "./check --replay {path}",
            "engine": c["engine"],
            "level_claimed": {"category": c["cat"], "text": c["text"], "design_ref": c["ref"]},
            "level_note": c["note"],
            "technique": c["technique"],
        })
    na = [{"property_id": p, "reason": NOT_YET.get(p, "check not built yet in this round (see DESIGN.md §3 for the planned exhaustive exploration); nothing is claimed")}
          for p in ALL if p not in CHECKS]
    m = {
        "version": 1,
        "setup_cmd": "./check setup",
        "hooks": {
            "guard": "verif",
            "enable": "go build -tags verif [-overlay <generated json>] from /verif/harness with replace github.com/FollowTheProcess/spok => /repo; no hook lives in /repo, instrumentation is injected with go build -overlay (controlled dag iteration, rewritten hash/lexer channel operations, virtual package zzverif/vsched)",
            "baseline_off_cmd": "cd /repo && GOFLAGS=-mod=mod GOPROXY=off GOSUMDB=off GOTOOLCHAIN=local go test -json -vet=off -count=1 -timeout 25m ./...",
            "source_commits": [],
            "add_only": True,
        },
        "engines": [
            {"name": "langmc", "path": "harness/cmd/mc/langmc.go, harness/internal/lang", "serves_properties": ["C06", "C07", "C08", "C11", "C15", "C16"],
             "kind_free_text": "bounded-exhaustive enumeration of lexer/parser/formatter inputs executed on the real code in crash-isolated workers"},
            {"name": "histmc", "path": "harness/cmd/mc/histmc.go", "serves_properties": ["C01", "C02", "C14"],
             "kind_free_text": "explicit-state search over project histories: states (disk, reference model), transitions executed by the real code"},
            {"name": "schedmc", "path": "harness/cmd/mc/schedmc.go, harness/overlay/vsched, harness/cmd/rewrite", "serves_properties": ["C04", "C18"],
             "kind_free_text": "hand-written stateless model checker for Go: controlled scheduler + source rewriter, preemption/deviation-bounded DFS over choice sequences, optional state-key pruning"},
            {"name": "crashmc", "path": "harness/cmd/mc/c10.go", "serves_properties": ["C10"],
             "kind_free_text": "crash-point enumerator: syscall log of the real run (strace) x all prefixes x torn writes, continued through histmc's transition function and reference model"},
            {"name": "cfgmc-bin", "path": "harness/cmd/mc/c09.go c12.go c13.go c19.go c20.go, harness/internal/bin", "serves_properties": ["C09", "C12", "C13", "C19", "C20"],
             "kind_free_text": "exhaustive enumeration of small configuration universes executed through the built spok binary in a sandbox as uid nobody, with whole-sandbox snapshots and a harness-owned side-effect log"},
            {"name": "cfgmc", "path": "harness/cmd/mc/c03.go c05.go c17.go", "serves_properties": ["C03", "C05", "C17"],
             "kind_free_text": "exhaustive enumeration of small configuration universes (graphs x requests x iteration orders, trees x patterns, chains x start x stop) executed on the real code against reference functions"},
        ],
        "checks": checks,
        "not_applicable": na,
        "notes": "See DESIGN.md (sections 9-11 describe what was built, the defects found and repaired in /repo, the false alarms corrected, and which seeded changes each check catches). Every check enumerates a stated finite space exhaustively on code built from /repo's working tree; evidence files report the bound completed. C04/C18 additionally carry a supplementary free-running race-detector pass that can only add alarms backed by a race report. known_findings.jsonl holds only 'fixed' entries.",
    }
    with open(os.path.join(here, "MANIFEST.json"), "w") as f:
        json.dump(m, f, indent=1)
        f.write("\n")

if __name__ == "__main__":
    main()
