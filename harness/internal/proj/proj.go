// Package proj drives the real spok code in-process on a project directory:
// parser.New(text).Parse() -> file.New(tree, dir, logger) -> SpokFile.Run(...),
// exactly the calls cli/app makes, with a fresh SpokFile per invocation.
package proj

import (
	"fmt"
	"os"
	"path/filepath"
	"runtime/debug"
	"strings"

	"github.com/FollowTheProcess/spok/file"
	"github.com/FollowTheProcess/spok/iostream"
	"github.com/FollowTheProcess/spok/parser"
	"github.com/FollowTheProcess/spok/shell"
)

// NopLogger satisfies logger.Logger.
type NopLogger struct{}

func (NopLogger) Sync() error          { return nil }
func (NopLogger) Debug(string, ...any) {}

type TaskRes struct {
	Name     string `json:"name"`
	Skipped  bool   `json:"skipped"`
	Statuses []int  `json:"statuses"`
}

type RunOut struct {
	ParseErr string    `json:"parse_err,omitempty"`
	LoadErr  string    `json:"load_err,omitempty"`
	RunErr   string    `json:"run_err,omitempty"`
	Panic    string    `json:"panic,omitempty"`
	Results  []TaskRes `json:"results,omitempty"`
	Log      []string  `json:"log,omitempty"` // lines appended to $VLOG by task commands
}

func (r RunOut) Failed() bool {
	return r.ParseErr != "" || r.LoadErr != "" || r.RunErr != "" || r.Panic != ""
}
func (r RunOut) ErrText() string {
	return r.ParseErr + r.LoadErr + r.RunErr + r.Panic
}

// Sandbox is a per-worker scratch area: Root/p is the project dir (three levels
// below the scratch root so that ../.. stays inside), Root/ctl holds VLOG and fail flags.
type Sandbox struct {
	Root string
	Dir  string // project directory (holds the spokfile)
	Ctl  string
	Log  string
}

func NewSandbox(root string) *Sandbox { return NewSandboxNamed(root, "p") }

// NewSandboxNamed lets the caller choose the name of the project directory itself.
func NewSandboxNamed(root, name string) *Sandbox {
	s := &Sandbox{Root: root, Dir: filepath.Join(root, "w", "x", name), Ctl: filepath.Join(root, "ctl")}
	s.Log = filepath.Join(s.Ctl, "vlog")
	os.MkdirAll(s.Dir, 0o755)
	os.MkdirAll(s.Ctl, 0o755)
	os.Setenv("VLOG", s.Log)
	os.Setenv("VCTL", s.Ctl)
	os.Setenv("VPROJ", s.Dir)
	return s
}

// ResetProject empties the project dir.
func (s *Sandbox) ResetProject() {
	ents, _ := os.ReadDir(s.Dir)
	for _, e := range ents {
		os.RemoveAll(filepath.Join(s.Dir, e.Name()))
	}
}

func (s *Sandbox) ClearLog() { os.Remove(s.Log) }

func (s *Sandbox) ReadLog() []string {
	b, err := os.ReadFile(s.Log)
	if err != nil || len(b) == 0 {
		return nil
	}
	return strings.Split(strings.TrimRight(string(b), "\n"), "\n")
}

// SetFailing marks exactly the given tasks as failing (their command `test ! -e $VCTL/fail_<t>` exits 1).
func (s *Sandbox) SetFailing(tasks []string, all []string) {
	for _, t := range all {
		os.Remove(filepath.Join(s.Ctl, "fail_"+t))
	}
	for _, t := range tasks {
		os.WriteFile(filepath.Join(s.Ctl, "fail_"+t), nil, 0o644)
	}
}

// AttachSandbox returns the sandbox rooted at root as laid out by NewSandbox.
func AttachSandbox(root string) *Sandbox { return NewSandbox(root) }

// Run performs one spok invocation in-process.
func (s *Sandbox) Run(text string, force bool, tasks ...string) (out RunOut) {
	s.ClearLog()
	return s.RunNoClear(text, force, tasks...)
}

// RunNoClear is Run without touching the marker log first.
func (s *Sandbox) RunNoClear(text string, force bool, tasks ...string) (out RunOut) {
	defer func() {
		if r := recover(); r != nil {
			out.Panic = fmt.Sprintf("panic: %v\n%s", r, firstLines(string(debug.Stack()), 12))
		}
		out.Log = s.ReadLog()
	}()
	tree, err := parser.New(text).Parse()
	if err != nil {
		out.ParseErr = err.Error()
		return
	}
	sf, err := file.New(tree, s.Dir, NopLogger{})
	if err != nil {
		out.LoadErr = err.Error()
		return
	}
	res, err := sf.Run(iostream.Null(), shell.NewIntegratedRunner(), force, tasks...)
	if err != nil {
		out.RunErr = err.Error()
		return
	}
	for _, r := range res {
		tr := TaskRes{Name: r.Task, Skipped: r.Skipped}
		for _, c := range r.CommandResults {
			tr.Statuses = append(tr.Statuses, c.Status)
		}
		out.Results = append(out.Results, tr)
	}
	return
}

func firstLines(s string, n int) string {
	l := strings.SplitN(s, "\n", n+1)
	if len(l) > n {
		l = l[:n]
	}
	return strings.Join(l, "\n")
}
