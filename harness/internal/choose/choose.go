// Package choose is the stateless explorer core for sequential code with
// environment choice points: a Chooser replays a prefix of choices and takes choice 0
// afterwards; All enumerates every choice sequence depth-first.
package choose

import "fmt"

type Chooser struct {
	prefix []int
	Taken  []int // choices taken in this execution
	Width  []int // number of alternatives at each point
}

// NewReplay returns a chooser that replays prefix and then takes choice 0.
func NewReplay(prefix []int) *Chooser { return &Chooser{prefix: prefix} }

func (c *Chooser) Choose(n int) int {
	i := len(c.Taken)
	v := 0
	if i < len(c.prefix) {
		v = c.prefix[i]
		if v >= n {
			panic(fmt.Sprintf("choose: replay divergence at point %d: choice %d of %d", i, v, n))
		}
	}
	c.Taken = append(c.Taken, v)
	c.Width = append(c.Width, n)
	return v
}

// Perm picks a permutation of 0..n-1 through n-1 sequential choices.
func (c *Chooser) Perm(n int) []int {
	rest := make([]int, n)
	for i := range rest {
		rest[i] = i
	}
	out := make([]int, 0, n)
	for len(rest) > 1 {
		k := c.Choose(len(rest))
		out = append(out, rest[k])
		rest = append(rest[:k], rest[k+1:]...)
	}
	return append(out, rest[0])
}

// All runs body once per complete choice sequence (depth-first, canonical order).
// body must be deterministic given the chooser. Returns the number of executions.
func All(body func(c *Chooser)) int {
	n := 0
	var rec func(prefix []int)
	rec = func(prefix []int) {
		c := &Chooser{prefix: prefix}
		body(c)
		n++
		for i := len(prefix); i < len(c.Taken); i++ {
			for alt := 1; alt < c.Width[i]; alt++ {
				np := append(append([]int{}, c.Taken[:i]...), alt)
				rec(np)
			}
		}
	}
	rec(nil)
	return n
}
