// Package ev holds the plumbing shared by every check: evidence files, violation
// reporting with replay artefacts, and the committed known-findings list.
package ev

import (
	"crypto/sha256"
	"encoding/hex"
	"encoding/json"
	"fmt"
	"os"
	"path/filepath"
	"sort"
	"strconv"
	"strings"
	"sync"
	"time"
)

// Root is the /verif directory (overridable for tests of the harness itself).
var Root = func() string {
	if r := os.Getenv("VERIF_ROOT"); r != "" {
		return r
	}
	return "/verif"
}()

// Violation is one property violation, with everything needed to replay it.
type Violation struct {
	Property string         `json:"property"`
	Engine   string         `json:"engine"`
	Key      string         `json:"key"`   // canonical identity of the failing case
	Class    string         `json:"class"` // short signature of *how* it fails (used by known findings)
	What     string         `json:"what"`  // human readable
	Case     map[string]any `json:"case"`  // replay data
}

// Finding is one line of known_findings.jsonl.
type Finding struct {
	Property string `json:"property"`
	Status   string `json:"status"` // "known" | "fixed"
	Key      string `json:"key,omitempty"`
	Class    string `json:"class,omitempty"`
	Commit   string `json:"commit,omitempty"`
	What     string `json:"what"`
}

// Run collects what one check invocation covered.
type Run struct {
	mu         sync.Mutex
	Property   string
	Tier       string
	Level      string
	Engine     string
	start      time.Time
	Coverage   map[string]any
	Assume     []string
	violations []Violation
	known      map[string]int // finding what -> count
	samples    []any
	findings   []Finding
	seen       map[string]bool
}

func Seed() int {
	s, _ := strconv.Atoi(os.Getenv("VERIF_SEED"))
	return s
}

// NewRun starts the clock and loads known findings for the property.
func NewRun(property, tier, level, engine string) *Run {
	r := &Run{Property: property, Tier: tier, Level: level, Engine: engine, start: time.Now(),
		Coverage: map[string]any{}, known: map[string]int{}, seen: map[string]bool{}}
	r.findings = LoadFindings(property)
	// replay files of earlier runs would only confuse
	if old, err := filepath.Glob(filepath.Join(Root, "replays", property, "*.json")); err == nil {
		for _, f := range old {
			os.Remove(f)
		}
	}
	return r
}

func LoadFindings(property string) []Finding {
	var out []Finding
	data, err := os.ReadFile(filepath.Join(Root, "known_findings.jsonl"))
	if err != nil {
		return nil
	}
	for _, line := range strings.Split(string(data), "\n") {
		line = strings.TrimSpace(line)
		if line == "" || strings.HasPrefix(line, "//") {
			continue
		}
		var f Finding
		if err := json.Unmarshal([]byte(line), &f); err != nil {
			fmt.Fprintf(os.Stderr, "harness: bad known_findings line: %v\n", err)
			os.Exit(2)
		}
		if f.Property == property {
			out = append(out, f)
		}
	}
	return out
}

// Sample records an explored case for the evidence file (first n kept).
func (r *Run) Sample(v any) {
	r.mu.Lock()
	defer r.mu.Unlock()
	if len(r.samples) < 12 {
		r.samples = append(r.samples, v)
	}
}

// Report registers a violation. Violations listed as status "known" (matched by
// exact key, or by class when the finding gives a class) are counted separately.
func (r *Run) Report(v Violation) {
	r.mu.Lock()
	defer r.mu.Unlock()
	v.Property = r.Property
	if v.Engine == "" {
		v.Engine = r.Engine
	}
	if len(v.What) > 1500 {
		v.What = v.What[:700] + " ...[" + strconv.Itoa(len(v.What)-1400) + " bytes]... " + v.What[len(v.What)-700:]
	}
	if len(v.Key) > 400 {
		h := sha256.Sum256([]byte(v.Key))
		v.Key = v.Key[:200] + "...#" + hex.EncodeToString(h[:8])
	}
	id := v.Key + "\x00" + v.Class
	if r.seen[id] {
		return
	}
	r.seen[id] = true
	for _, f := range r.findings {
		if f.Status != "known" {
			continue
		}
		if (f.Key != "" && f.Key == v.Key) || (f.Key == "" && f.Class != "" && f.Class == v.Class) {
			r.known[f.What]++
			return
		}
	}
	r.violations = append(r.violations, v)
}

func (r *Run) NViolations() int {
	r.mu.Lock()
	defer r.mu.Unlock()
	return len(r.violations)
}

// Set stores a coverage key.
func (r *Run) Set(k string, v any) {
	r.mu.Lock()
	defer r.mu.Unlock()
	r.Coverage[k] = v
}

// Add adds to an integer coverage counter.
func (r *Run) Add(k string, n int64) {
	r.mu.Lock()
	defer r.mu.Unlock()
	cur, _ := r.Coverage[k].(int64)
	r.Coverage[k] = cur + n
}

func (r *Run) Get(k string) int64 {
	r.mu.Lock()
	defer r.mu.Unlock()
	cur, _ := r.Coverage[k].(int64)
	return cur
}

func (r *Run) Assumes(s ...string) { r.Assume = append(r.Assume, s...) }

// Finish writes evidence + replay files, prints KNOWN-FINDING / VIOLATION lines and
// returns the process exit code.
func (r *Run) Finish() int {
	r.mu.Lock()
	defer r.mu.Unlock()
	wall := time.Since(r.start).Seconds()
	cov := r.Coverage
	if len(r.samples) > 0 {
		cov["samples"] = r.samples
	}
	if _, ok := cov["exhaustive"]; !ok {
		cov["exhaustive"] = true
	}
	// print known findings
	kk := make([]string, 0, len(r.known))
	for k := range r.known {
		kk = append(kk, k)
	}
	sort.Strings(kk)
	knownTotal := 0
	for _, k := range kk {
		fmt.Printf("KNOWN-FINDING: property=%s %s (%d cases)\n", r.Property, k, r.known[k])
		knownTotal += r.known[k]
	}
	cov["known_finding_cases"] = knownTotal
	// Replay files for (at most 20) violations, shortest key first.
	sort.SliceStable(r.violations, func(i, j int) bool {
		if len(r.violations[i].Key) != len(r.violations[j].Key) {
			return len(r.violations[i].Key) < len(r.violations[j].Key)
		}
		return r.violations[i].Key < r.violations[j].Key
	})
	dir := filepath.Join(Root, "replays", r.Property)
	var lines []string
	classes := map[string]int{}
	for _, v := range r.violations {
		classes[v.Class]++
	}
	perClass := map[string]int{}
	for _, v := range r.violations {
		if perClass[v.Class] >= 3 || len(lines) >= 20 {
			continue
		}
		perClass[v.Class]++
		os.MkdirAll(dir, 0o755)
		h := sha256.Sum256([]byte(v.Key + "\x00" + v.Class))
		p := filepath.Join(dir, hex.EncodeToString(h[:6])+".json")
		data, _ := json.MarshalIndent(v, "", " ")
		os.WriteFile(p, data, 0o644)
		lines = append(lines, fmt.Sprintf("VIOLATION property=%s replay=%s", r.Property, p))
		fmt.Fprintf(os.Stderr, "  violation class=%s: %s\n", v.Class, v.What)
	}
	if len(classes) > 0 {
		cov["violation_classes"] = classes
	}
	evd := map[string]any{
		"property_id": r.Property,
		"tier":        r.Tier,
		"seed":        Seed(),
		"level":       r.Level,
		"coverage":    cov,
		"assumptions": r.Assume,
		"wall_s":      float64(int(wall*100)) / 100,
		"violations":  len(r.violations),
	}
	if r.Assume == nil {
		evd["assumptions"] = []string{}
	}
	data, err := json.MarshalIndent(evd, "", " ")
	if err != nil {
		fmt.Fprintf(os.Stderr, "harness: evidence marshal: %v\n", err)
		return 2
	}
	os.MkdirAll(filepath.Join(Root, "evidence"), 0o755)
	if err := os.WriteFile(filepath.Join(Root, "evidence", r.Property+".json"), append(data, '\n'), 0o644); err != nil {
		fmt.Fprintf(os.Stderr, "harness: evidence write: %v\n", err)
		return 2
	}
	for _, l := range lines {
		fmt.Println(l)
	}
	fmt.Printf("%s %s: %v wall=%.1fs violations=%d known=%d\n", r.Property, r.Tier, summary(cov), wall, len(r.violations), knownTotal)
	if len(r.violations) > 0 {
		return 1
	}
	return 0
}

func summary(cov map[string]any) string {
	var parts []string
	for _, k := range []string{"states", "transitions", "evaluations", "distinct_nontrivial", "traces_validated_against_impl", "exhaustive"} {
		if v, ok := cov[k]; ok {
			parts = append(parts, fmt.Sprintf("%s=%v", k, v))
		}
	}
	return strings.Join(parts, " ")
}

// Fatal is for harness errors (never a property verdict).
func Fatal(format string, a ...any) {
	fmt.Fprintf(os.Stderr, "harness error: "+format+"\n", a...)
	os.Exit(2)
}
