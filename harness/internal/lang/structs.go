// Package lang enumerates the bounded input spaces used by the lexer / parser /
// formatter properties (C06 C07 C08 C11 C15 C16) and implements their oracles.
package lang

import (
	"fmt"
	"strings"
)

// ---------------------------------------------------------------------------
// Abstract spokfiles

type Arg struct {
	Ident bool
	Text  string
}

const (
	KComment = iota
	KAssign
	KTask
)

type Stmt struct {
	Kind   int
	Text   string // comment: raw text after '#'
	Name   string
	IsCall bool // assign: value is Fn(Args...) instead of the string Text
	Fn     string
	Args   []Arg
	HasDoc bool
	Doc    string // raw text after '#'
	Deps   []Arg
	Outs   []Arg
	Cmds   []string
}

// piece is one syntactic section of a rendering: Alts[0] is the canonical text,
// Alts[1:] are admissible layout deviations (the dimensions C06 names), Ext are
// deviations outside C06's list that still (may) parse.
type piece struct {
	Alts []string
	Ext  []string
}

func lit(s string) piece { return piece{Alts: []string{s}} }

func argText(a Arg) string {
	if a.Ident {
		return a.Text
	}
	return `"` + a.Text + `"`
}

// argList renders "(a, b)" in several spacings.
func argListAlts(args []Arg, allowNewlines bool) []string {
	t := make([]string, len(args))
	for i, a := range args {
		t[i] = argText(a)
	}
	if len(args) == 0 {
		return []string{"()", "( )", "(  )", "(\t)"}
	}
	out := []string{
		"(" + strings.Join(t, ", ") + ")",
		"(" + strings.Join(t, ",") + ")",
		"(" + strings.Join(t, " , ") + ")",
		"(" + strings.Join(t, ",  ") + ")",
		"(" + strings.Join(t, ",\t") + ")",
		"( " + strings.Join(t, ", ") + " )",
		"(" + strings.Join(t, ", ") + ",)",
		"(" + strings.Join(t, ", ") + ", )",
		"( " + strings.Join(t, " ,") + " , )",
	}
	if allowNewlines {
		if args[len(args)-1].Ident {
			// a name may be the last thing on its line (the scanner skips whitespace after
			// an identifier before it looks for ')' or ','); a string may not
			out = append(out,
				"(\n    "+strings.Join(t, ",\n    ")+"\n)",
				"(\r\n    "+strings.Join(t, ",\r\n    ")+"\r\n)",
				"("+strings.Join(t, ", ")+"\n)",
			)
		}
		allIdent := true
		for _, a := range args {
			allIdent = allIdent && a.Ident
		}
		if allIdent && len(args) > 1 {
			out = append(out, "("+strings.Join(t, "\n, ")+")")
		}
		out = append(out,
			"(\n    "+strings.Join(t, ",\n    ")+",\n)",
			"(\n"+strings.Join(t, ",\n")+",\n)",
			"("+strings.Join(t, ",\n")+")",
			"(\r\n    "+strings.Join(t, ",\r\n    ")+",\r\n)",
		)
	}
	return out
}

func (s Stmt) pieces(last bool) []piece {
	var p []piece
	indent := piece{Alts: []string{"", "  ", "\t", "    "}}
	eol := func() piece {
		e := piece{Alts: []string{"\n", "\n\n", "\r\n", "\n  \n", "\n\n\n", "\r\n\r\n"},
			Ext: []string{" \n", "\t\n", " "}}
		if last {
			e.Alts = append(e.Alts, "")
		}
		return e
	}
	switch s.Kind {
	case KComment:
		p = append(p, indent, lit("#"+s.Text), eol())
	case KAssign:
		p = append(p, indent, lit(s.Name))
		p = append(p, piece{Alts: []string{" := ", ":=", "  :=  ", " :=", ":= ", "\t:=\t"}})
		if s.IsCall {
			p = append(p, lit(s.Fn))
			p = append(p, piece{Alts: argListAlts(s.Args, true), Ext: []string{" " + argListAlts(s.Args, false)[0]}})
		} else {
			p = append(p, lit(`"`+s.Text+`"`))
		}
		p = append(p, eol())
	case KTask:
		if s.HasDoc {
			p = append(p, indent, lit("#"+s.Doc), piece{Alts: []string{"\n", "\r\n", "\n\n", "\n  \n", "\r\n\r\n"}})
		}
		p = append(p, indent, lit("task"), piece{Alts: []string{" ", "  ", "\t"}}, lit(s.Name),
			piece{Alts: []string{"", " ", "  "}}, piece{Alts: argListAlts(s.Deps, true)})
		// outputs
		switch len(s.Outs) {
		case 0:
		case 1:
			o := argText(s.Outs[0])
			p = append(p, piece{Alts: []string{" -> " + o, "->" + o, "  ->  " + o, " ->" + o, "-> " + o, "\t->\t" + o,
				" -> (" + o + ")", " -> ( " + o + " )", " -> (" + o + ",)", " -> (\n    " + o + ",\n)", "->(" + o + ")"}})
			if s.Outs[0].Ident {
				last := &p[len(p)-1]
				last.Alts = append(last.Alts, " -> (\n    "+o+"\n)")
			}
		default:
			la := argListAlts(s.Outs, true)
			alts := make([]string, 0, len(la)+3)
			for _, l := range la {
				alts = append(alts, " -> "+l)
			}
			alts = append(alts, "->"+la[0], "  ->  "+la[0], " ->"+la[0])
			p = append(p, piece{Alts: alts})
		}
		p = append(p, piece{Alts: []string{" ", "", "\t", "  "}})
		// body
		var body piece
		c := s.Cmds
		switch len(c) {
		case 0:
			body = piece{Alts: []string{"{\n}", "{}", "{ }", "{\n\n}", "{\r\n}", "{\n  }", "{\t}"}}
		default:
			ml := func(ind, sep, pre string) string {
				return "{" + sep + ind + strings.Join(c, sep+ind) + sep + pre + "}"
			}
			body = piece{Alts: []string{
				ml("    ", "\n", ""),
				ml("\t", "\n", ""),
				ml("", "\n", ""),
				ml("  ", "\n", ""),
				ml("    ", "\n\n", ""),
				ml("    ", "\r\n", ""),
				ml("    ", "\n", "  "),
				ml("    ", "\n", "\t"),
				ml("    ", "\n  \n", ""),
				"{\n\n    " + strings.Join(c, "\n    ") + "\n\n}",
			}}
			if len(c) == 1 {
				body.Alts = append(body.Alts, "{ "+c[0]+" }", "{"+c[0]+"}", "{ "+c[0]+"}", "{\t"+c[0]+" }", "{  "+c[0]+" }")
				body.Ext = append(body.Ext, "{ "+c[0]+"  }", "{ "+c[0]+"\t}")
			} else {
				// last command on the closing line
				body.Ext = append(body.Ext, "{\n    "+strings.Join(c[:len(c)-1], "\n    ")+"\n    "+c[len(c)-1]+" }")
			}
			body.Ext = append(body.Ext, "{\n    "+strings.Join(c, " \n    ")+" \n}")
		}
		p = append(p, body, eol())
	}
	return p
}

// File is an abstract spokfile.
type File []Stmt

// Pieces returns the sections of the whole file (leading piece first).
func (f File) Pieces() []piece {
	p := []piece{{Alts: []string{"", "\n", "\n\n", "\r\n", "  \n"}}}
	for i, s := range f {
		p = append(p, s.pieces(i == len(f)-1)...)
	}
	return p
}

// Rendering is one concrete text of a File.
type Rendering struct {
	Text       string
	Admissible bool // only deviations C06 names were used
	Dev        int  // number of deviations
}

// Layouts calls emit for the canonical layout and every layout with <= k deviating
// sections (each deviating section takes each of its alternatives); crlf adds the
// global "all line ends CRLF" variant as one more deviation.
func (f File) Layouts(k int, withExt bool, emit func(Rendering)) {
	ps := f.Pieces()
	choice := make([]int, len(ps)) // 0 canonical, i>0 alt index (Alts then Ext)
	build := func(crlf bool) (string, bool) {
		var sb strings.Builder
		adm := true
		for i, p := range ps {
			c := choice[i]
			if c < len(p.Alts) {
				sb.WriteString(p.Alts[c])
			} else {
				sb.WriteString(p.Ext[c-len(p.Alts)])
				adm = false
			}
		}
		t := sb.String()
		if crlf {
			t = strings.ReplaceAll(strings.ReplaceAll(t, "\r\n", "\n"), "\n", "\r\n")
		}
		return t, adm
	}
	var rec func(from, left, used int)
	rec = func(from, left, used int) {
		t, adm := build(false)
		emit(Rendering{Text: t, Admissible: adm, Dev: used})
		if left > 0 {
			t2, adm2 := build(true)
			if t2 != t {
				emit(Rendering{Text: t2, Admissible: adm2, Dev: used + 1})
			}
		}
		if left == 0 {
			return
		}
		for i := from; i < len(ps); i++ {
			n := len(ps[i].Alts)
			if withExt {
				n += len(ps[i].Ext)
			}
			for c := 1; c < n; c++ {
				choice[i] = c
				rec(i+1, left-1, used+1)
			}
			choice[i] = 0
		}
	}
	rec(0, k, 0)
}

// Canonical returns the canonical rendering.
func (f File) Canonical() string {
	var sb strings.Builder
	for _, p := range f.Pieces() {
		sb.WriteString(p.Alts[0])
	}
	return sb.String()
}

// ---------------------------------------------------------------------------
// Statement alphabets

var commentTexts = []string{"", " ", " c", " c d ", "#x", " é!", "!/usr/bin/env spok"}
var strTexts = []string{"x", "a b", "é.go", "**/*.go", "", "./bin/x-1", `C:\temp\new`, `%s\t%d\n a\\b`, "#{}(),:=->task"}
var cmdTexts = []string{"echo a", "echo {{.X}}", "a  b", "echo $X", "go test ./...", `echo "q" | tr a b > f`, `echo don't stop`, `echo 5\" x`, `echo {{ .X }}{{ .X }}/{{.X}}`, `cd docs ;`}

func argChoices() []Arg {
	return []Arg{{false, "x.go"}, {false, "**/*.é"}, {true, "dep"}, {true, "é_b"}, {false, ""}, {false, `a\tb\\c`}}
}

// argLists returns all lists of length <= n over the arg choices.
func argLists(n int) [][]Arg {
	ch := argChoices()
	out := [][]Arg{{}}
	prev := [][]Arg{{}}
	for l := 1; l <= n; l++ {
		var cur [][]Arg
		for _, p := range prev {
			for _, c := range ch {
				x := append(append([]Arg{}, p...), c)
				cur = append(cur, x)
			}
		}
		out = append(out, cur...)
		prev = cur
	}
	return out
}

func cmdLists(n int) [][]string {
	out := [][]string{{}}
	prev := [][]string{{}}
	for l := 1; l <= n; l++ {
		var cur [][]string
		for _, p := range prev {
			for _, c := range cmdTexts {
				cur = append(cur, append(append([]string{}, p...), c))
			}
		}
		out = append(out, cur...)
		prev = cur
	}
	return out
}

// FullStatements is the large single-statement alphabet. extNames adds the
// keyword-prefixed identifiers (outside C06's domain: they do not parse today at
// statement start).
func FullStatements(extNames bool) []Stmt {
	var out []Stmt
	for _, c := range commentTexts {
		out = append(out, Stmt{Kind: KComment, Text: c})
	}
	names := []string{"X", "é_b"}
	if extNames {
		names = append(names, "taskx", "task_")
	}
	for _, n := range names {
		for _, s := range strTexts {
			out = append(out, Stmt{Kind: KAssign, Name: n, Text: s})
		}
		for _, fn := range []string{"join", "exec"} {
			for _, al := range argLists(2) {
				out = append(out, Stmt{Kind: KAssign, Name: n, IsCall: true, Fn: fn, Args: al})
			}
		}
	}
	docs := []struct {
		has bool
		t   string
	}{{false, ""}, {true, " d"}, {true, ""}}
	outsL := argLists(2)
	for _, d := range docs {
		for _, n := range names[:2] {
			for _, deps := range argLists(2) {
				for _, outs := range outsL {
					// keep the product enumerable: vary commands fully only for the
					// argument-light tasks, one representative command list otherwise
					var cls [][]string
					if len(deps)+len(outs) <= 1 {
						cls = cmdLists(2)
					} else {
						cls = [][]string{{}, {"echo {{.X}}", `echo "q" | tr a b > f`}}
					}
					for _, cl := range cls {
						out = append(out, Stmt{Kind: KTask, Name: n, HasDoc: d.has, Doc: d.t, Deps: deps, Outs: outs, Cmds: cl})
					}
				}
			}
		}
	}
	return out
}

// ReducedStatements keeps one representative of every kind / arity.
func ReducedStatements(extNames bool) []Stmt {
	s := func(t string) Arg { return Arg{false, t} }
	id := func(t string) Arg { return Arg{true, t} }
	out := []Stmt{
		{Kind: KComment, Text: ""},
		{Kind: KComment, Text: " "},
		{Kind: KComment, Text: " c"},
		{Kind: KComment, Text: " c d "},
		{Kind: KComment, Text: "#x"},
		{Kind: KAssign, Name: "X", Text: "x"},
		{Kind: KAssign, Name: "é_b", Text: "a b"},
		{Kind: KAssign, Name: "X", Text: ""},
		{Kind: KAssign, Name: "Y", IsCall: true, Fn: "join", Args: []Arg{s("a"), s("b")}},
		{Kind: KAssign, Name: "Y", IsCall: true, Fn: "exec", Args: []Arg{s("echo hi")}},
		{Kind: KAssign, Name: "Y", IsCall: true, Fn: "join", Args: []Arg{}},
		{Kind: KAssign, Name: "Y", IsCall: true, Fn: "join", Args: []Arg{id("X"), s("b")}},
		{Kind: KTask, Name: "a"},
		{Kind: KTask, Name: "a", Cmds: []string{"echo a"}},
		{Kind: KTask, Name: "b", Cmds: []string{"echo {{.X}}", "a  b"}},
		{Kind: KTask, Name: "a", HasDoc: true, Doc: " d", Cmds: []string{"echo a"}},
		{Kind: KTask, Name: "a", HasDoc: true, Doc: "", Cmds: []string{"echo a"}},
		{Kind: KTask, Name: "a", HasDoc: true, Doc: " d e ", Deps: []Arg{s("x.go")}, Cmds: []string{"go test ./..."}},
		{Kind: KTask, Name: "é_b", Deps: []Arg{s("**/*.go"), id("a")}, Cmds: []string{"echo $X"}},
		{Kind: KTask, Name: "a", Deps: []Arg{id("dep")}},
		{Kind: KTask, Name: "a", Outs: []Arg{s("out")}, Cmds: []string{"echo a"}},
		{Kind: KTask, Name: "a", Outs: []Arg{id("X")}, Cmds: []string{"echo a"}},
		{Kind: KTask, Name: "a", Outs: []Arg{s("o1"), id("X")}, Cmds: []string{`echo "q" | tr a b > f`}},
		{Kind: KTask, Name: "a", Deps: []Arg{s("x.go"), s("y.go")}, Outs: []Arg{s("")}, Cmds: []string{"echo a", "echo b"}},
		{Kind: KTask, Name: "q", Deps: []Arg{s(`C:\new\table`)}, Cmds: []string{`echo don't stop`}},
		{Kind: KAssign, Name: "W", Text: `%s\t%d\n`},
		// a variable that happens to be called like the keyword
		{Kind: KAssign, Name: "task", Text: "x"},
		{Kind: KAssign, Name: "task", IsCall: true, Fn: "join", Args: []Arg{s("a"), id("task")}},
		// the keyword as an ordinary identifier where no definition can start
		{Kind: KTask, Name: "all", Deps: []Arg{id("task"), s("x.go")}, Outs: []Arg{id("task")}, Cmds: []string{"echo task"}},
		{Kind: KAssign, Name: "Y", IsCall: true, Fn: "join", Args: []Arg{id("task"), s("bin")}},
		{Kind: KComment, Text: "!/usr/bin/env spok"},
		// paths that a tidy-minded formatter might want to clean, more than once over
		{Kind: KTask, Name: "p", Deps: []Arg{s("src///pkg"), s("a/././b"), s("./c/.//./d")}, Outs: []Arg{s("x//./y"), s("../z/")}, Cmds: []string{"echo a//b/./c"}},
		// long literals and names that agree in their first 15+ characters
		{Kind: KTask, Name: "averyveryverylongname_a", Deps: []Arg{s("internal/parser/parser.go"), s("internal/parser/tokens.go"), id("averyveryverylongname_b")}, Outs: []Arg{s("internal/parser/parser.out"), id("averyveryverylongname_c")}, Cmds: []string{"echo a"}},
		{Kind: KAssign, Name: "averyveryverylongname_c", IsCall: true, Fn: "join", Args: []Arg{s("a/very/long/path/segment/one"), s("a/very/long/path/segment/two")}},
	}
	if extNames {
		out = append(out,
			Stmt{Kind: KAssign, Name: "taskx", Text: "x"},
			Stmt{Kind: KAssign, Name: "task_", IsCall: true, Fn: "join", Args: []Arg{s("a")}},
			Stmt{Kind: KAssign, Name: "X", IsCall: true, Fn: "taskfn", Args: []Arg{s("a")}},
		)
	}
	return out
}

// LongListStatements: dependency, output and argument lists longer than any initial
// capacity a parser is likely to pick (9, 10, 17, 33 entries), every entry distinct and
// tagged with its statement, next to short lists.
func LongListStatements() []Stmt {
	list := func(tag string, n int) []Arg {
		var out []Arg
		for i := 0; i < n; i++ {
			if i%3 == 2 {
				out = append(out, Arg{true, fmt.Sprintf("%s_id_%c%c", tag, 'a'+i/26, 'a'+i%26)})
			} else {
				out = append(out, Arg{false, fmt.Sprintf("%s/f%02d.go", tag, i)})
			}
		}
		return out
	}
	strs := func(tag string, n int) []Arg {
		var out []Arg
		for i := 0; i < n; i++ {
			out = append(out, Arg{false, fmt.Sprintf("%s-%02d", tag, i)})
		}
		return out
	}
	return []Stmt{
		{Kind: KTask, Name: "a", Deps: list("a", 9), Cmds: []string{"echo a"}},
		{Kind: KTask, Name: "b", Deps: list("b", 10)},
		{Kind: KTask, Name: "c", Deps: list("c", 17), Cmds: []string{"echo c"}},
		{Kind: KTask, Name: "d", Deps: list("d", 33)},
		{Kind: KTask, Name: "e", Outs: list("e", 9), Cmds: []string{"echo e"}},
		{Kind: KTask, Name: "f", Outs: list("f", 17)},
		{Kind: KTask, Name: "g", Deps: list("gd", 9), Outs: list("go", 9), Cmds: []string{"echo g"}},
		{Kind: KAssign, Name: "H", IsCall: true, Fn: "join", Args: strs("h", 9)},
		{Kind: KAssign, Name: "I", IsCall: true, Fn: "join", Args: strs("i", 17)},
		{Kind: KTask, Name: "j", Deps: list("jd", 2), Outs: list("jo", 2), Cmds: []string{"echo j"}},
		{Kind: KAssign, Name: "K", IsCall: true, Fn: "join", Args: strs("k", 2)},
		{Kind: KTask, Name: "l", Deps: list("l", 1)},
		{Kind: KTask, Name: "m", Deps: list("m", 8), Outs: list("mo", 8)},
	}
}

// SmallStatements is the alphabet for three-statement files.
func SmallStatements() []Stmt {
	s := func(t string) Arg { return Arg{false, t} }
	return []Stmt{
		{Kind: KComment, Text: ""},
		{Kind: KComment, Text: " c"},
		{Kind: KComment, Text: " "},
		{Kind: KAssign, Name: "X", Text: "x"},
		{Kind: KAssign, Name: "Y", IsCall: true, Fn: "join", Args: []Arg{s("a"), s("b")}},
		{Kind: KTask, Name: "a", Cmds: []string{"echo a"}},
		{Kind: KTask, Name: "b", HasDoc: true, Doc: " d", Deps: []Arg{s("x.go")}, Outs: []Arg{s("o")}, Cmds: []string{"echo {{.X}}", "a  b"}},
		{Kind: KTask, Name: "c", HasDoc: true, Doc: ""},
	}
}

// Normalise applies the docstring rule: a comment statement directly followed by a
// task *without* its own docstring is that task's docstring. Returns nil if the
// file is not in normal form (such files are skipped by the generator so that every
// abstract structure has one reading).
func Normal(f File) bool {
	for i := 0; i+1 < len(f); i++ {
		if f[i].Kind == KComment && f[i+1].Kind == KTask && !f[i+1].HasDoc {
			return false // ambiguous: would be read as a docstring
		}
	}
	return true
}
