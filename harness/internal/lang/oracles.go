package lang

import (
	"fmt"
	"regexp"
	"strconv"
	"strings"
	"unicode"

	"github.com/FollowTheProcess/spok/ast"
	"github.com/FollowTheProcess/spok/lexer"
	"github.com/FollowTheProcess/spok/parser"
	"github.com/FollowTheProcess/spok/token"
)

// Verdict is a failed oracle: Class is the short signature, What the explanation.
type Verdict struct {
	Class string
	What  string
}

func q(s string) string { return strconv.Quote(s) }

// ---------------------------------------------------------------------------
// C16: tokens tile the input

// CheckC16 reads the token stream up to the first EOF/ERROR.
func CheckC16(x string) (v *Verdict, ntok int, clean bool) {
	l := lexer.New(x)
	limit := len(x) + 2
	prevEnd := 0
	prevPos := -1
	for i := 0; ; i++ {
		if i > limit {
			return &Verdict{"stream-not-finite", fmt.Sprintf("more than len(x)+2=%d tokens before EOF/ERROR", limit)}, i, false
		}
		t := l.NextToken()
		if t.Type == token.ERROR {
			return nil, i, false
		}
		if t.Type == token.EOF {
			if t.Pos != len(x) {
				return &Verdict{"eof-pos", fmt.Sprintf("clean scan ends with EOF at Pos=%d, len(input)=%d", t.Pos, len(x))}, i, true
			}
			if !allSpace(x[min(prevEnd, len(x)):]) {
				return &Verdict{"gap-not-space", fmt.Sprintf("non-whitespace %s between last token and EOF", q(x[prevEnd:]))}, i, true
			}
			if want := 1 + strings.Count(x[:t.Pos], "\n"); t.Line != want {
				return &Verdict{"line", fmt.Sprintf("EOF token Line=%d, want %d", t.Line, want)}, i, true
			}
			return nil, i, true
		}
		if t.Pos < 0 || t.Pos+len(t.Value) > len(x) {
			return &Verdict{"slice-range", fmt.Sprintf("token %d %v: Pos=%d len(Value)=%d outside input of %d bytes", i, t.Type, t.Pos, len(t.Value), len(x))}, i, false
		}
		if x[t.Pos:t.Pos+len(t.Value)] != t.Value {
			return &Verdict{"slice-text", fmt.Sprintf("token %d %v: Value=%s but input[%d:%d]=%s", i, t.Type, q(t.Value), t.Pos, t.Pos+len(t.Value), q(x[t.Pos:t.Pos+len(t.Value)]))}, i, false
		}
		if t.Pos < prevEnd {
			return &Verdict{"overlap", fmt.Sprintf("token %d %v at Pos=%d overlaps previous token ending at %d", i, t.Type, t.Pos, prevEnd)}, i, false
		}
		if t.Pos < prevPos || (t.Pos == prevPos && len(t.Value) > 0 && prevEnd > prevPos) {
			return &Verdict{"not-increasing", fmt.Sprintf("token %d %v at Pos=%d after token at %d", i, t.Type, t.Pos, prevPos)}, i, false
		}
		if !allSpace(x[prevEnd:t.Pos]) {
			return &Verdict{"gap-not-space", fmt.Sprintf("non-whitespace %s skipped before token %d %v at %d", q(x[prevEnd:t.Pos]), i, t.Type, t.Pos)}, i, false
		}
		if want := 1 + strings.Count(x[:t.Pos], "\n"); t.Line != want {
			return &Verdict{"line", fmt.Sprintf("token %d %v %s at Pos=%d has Line=%d, want %d", i, t.Type, q(t.Value), t.Pos, t.Line, want)}, i, false
		}
		prevPos = t.Pos
		prevEnd = t.Pos + len(t.Value)
	}
}

func allSpace(s string) bool {
	for _, r := range s {
		if !unicode.IsSpace(r) {
			return false
		}
	}
	return true
}

// ---------------------------------------------------------------------------
// C08: parse terminates deterministically with a tree or a located error

var lineRe = regexp.MustCompile(`\(Line (-?\d+)\)`)

// CheckC08 parses twice (termination / crash are observed by the worker pool).
func CheckC08(x string) (*Verdict, bool) {
	t1, e1 := parser.New(x).Parse()
	t2, e2 := parser.New(x).Parse()
	if (e1 == nil) != (e2 == nil) || (e1 != nil && e1.Error() != e2.Error()) {
		return &Verdict{"nondeterministic-error", fmt.Sprintf("two parses disagree: %v vs %v", e1, e2)}, e1 == nil
	}
	if e1 == nil {
		if t1.String() != t2.String() || !treesEqual(t1, t2) {
			return &Verdict{"nondeterministic-tree", "two parses of the same input gave different trees"}, true
		}
		return nil, true
	}
	msg := e1.Error()
	m := lineRe.FindStringSubmatch(msg)
	if m == nil {
		return &Verdict{"error-without-line", fmt.Sprintf("syntax error cites no line: %s", q(msg))}, false
	}
	n, _ := strconv.Atoi(m[1])
	lines := strings.Split(x, "\n")
	if n < 1 || n > len(lines) {
		return &Verdict{"line-out-of-range", fmt.Sprintf("error cites Line %d, input has %d line(s): %s", n, len(lines), q(msg))}, false
	}
	// context: text after "\n\nN |\t"
	marker := fmt.Sprintf("\n\n%d |\t", n)
	idx := strings.LastIndex(msg, marker)
	if idx < 0 {
		return &Verdict{"no-quoted-line", fmt.Sprintf("error does not quote line %d: %s", n, q(msg))}, false
	}
	quoted := msg[idx+len(marker):]
	if quoted != strings.TrimSpace(lines[n-1]) {
		return &Verdict{"wrong-quoted-line", fmt.Sprintf("error cites Line %d but quotes %s; line %d is %s", n, q(quoted), n, q(strings.TrimSpace(lines[n-1])))}, false
	}
	return nil, false
}

func treesEqual(a, b ast.Tree) bool {
	return fmt.Sprintf("%#v", a) == fmt.Sprintf("%#v", b)
}

// ---------------------------------------------------------------------------
// Formatter properties C07 C11 C15

type semItem struct {
	Kind string
	Name string
	Val  string
	Deps string
	Outs string
	Cmds string
}

func nodeSem(n ast.Node) string {
	switch v := n.(type) {
	case ast.String:
		return "S:" + q(v.Text)
	case ast.Ident:
		return "I:" + v.Name
	case ast.Function:
		parts := []string{"F:" + v.Name.Name}
		for _, a := range v.Arguments {
			parts = append(parts, nodeSem(a))
		}
		return strings.Join(parts, "|")
	}
	return fmt.Sprintf("?%T", n)
}

func nodesSem(ns []ast.Node) string {
	p := make([]string, len(ns))
	for i, n := range ns {
		p[i] = nodeSem(n)
	}
	return strings.Join(p, ",")
}

// Sem is what a spokfile *does*: ordered variables and tasks (comments excluded).
func Sem(t ast.Tree) []semItem {
	var out []semItem
	for _, n := range t.Nodes {
		switch v := n.(type) {
		case ast.Assign:
			out = append(out, semItem{Kind: "assign", Name: v.Name.Name, Val: nodeSem(v.Value)})
		case ast.Task:
			c := make([]string, len(v.Commands))
			for i, cmd := range v.Commands {
				c[i] = q(cmd.Command)
			}
			out = append(out, semItem{Kind: "task", Name: v.Name.Name, Deps: nodesSem(v.Dependencies), Outs: nodesSem(v.Outputs), Cmds: strings.Join(c, ";")})
		}
	}
	return out
}

// Items is the comment/docstring skeleton of a tree (C15).
func Items(t ast.Tree) []string {
	var out []string
	for _, n := range t.Nodes {
		switch v := n.(type) {
		case ast.Comment:
			if s := strings.TrimSpace(v.Text); s != "" {
				out = append(out, "comment:"+q(s))
			}
		case ast.Assign:
			out = append(out, "assign:"+v.Name.Name)
		case ast.Task:
			out = append(out, "task:"+v.Name.Name+" doc="+q(strings.TrimSpace(v.Docstring.Text)))
		}
	}
	return out
}

// FmtResult is what the formatter round trip of one input looks like.
type FmtResult struct {
	Parsed bool
	T1     ast.Tree
	S1     string
	T2     ast.Tree
	Err2   error
}

func RoundTrip(x string) FmtResult {
	t1, err := parser.New(x).Parse()
	if err != nil {
		return FmtResult{}
	}
	r := FmtResult{Parsed: true, T1: t1, S1: t1.String()}
	r.T2, r.Err2 = parser.New(r.S1).Parse()
	return r
}

func CheckC07(r FmtResult) *Verdict {
	if r.Err2 != nil {
		return &Verdict{"fmt-output-unparseable", fmt.Sprintf("formatted text %s does not parse: %v", q(r.S1), firstLine(r.Err2.Error()))}
	}
	a, b := Sem(r.T1), Sem(r.T2)
	if len(a) != len(b) {
		return &Verdict{"fmt-changes-statements", fmt.Sprintf("%d variables/tasks before formatting, %d after; formatted: %s", len(a), len(b), q(r.S1))}
	}
	for i := range a {
		if a[i] != b[i] {
			return &Verdict{"fmt-changes-" + a[i].Kind, fmt.Sprintf("statement %d before %+v after %+v", i, a[i], b[i])}
		}
	}
	return nil
}

func CheckC11(r FmtResult) *Verdict {
	if r.Err2 != nil {
		return nil // C07's business
	}
	s2 := r.T2.String()
	if s2 != r.S1 {
		return &Verdict{"not-idempotent", fmt.Sprintf("format(x)=%s but format(format(x))=%s", q(r.S1), q(s2))}
	}
	return nil
}

func CheckC15(r FmtResult) *Verdict {
	if r.Err2 != nil {
		return nil // C07's business
	}
	a, b := Items(r.T1), Items(r.T2)
	if strings.Join(a, "\n") != strings.Join(b, "\n") {
		cls := "comment-changed"
		switch {
		case countPrefix(a, "comment:") > countPrefix(b, "comment:"):
			cls = "comment-lost-or-became-docstring"
		case countPrefix(a, "comment:") < countPrefix(b, "comment:"):
			cls = "comment-gained-or-docstring-detached"
		}
		return &Verdict{cls, fmt.Sprintf("before %v after %v", a, b)}
	}
	return nil
}

func countPrefix(l []string, p string) int {
	n := 0
	for _, s := range l {
		if strings.HasPrefix(s, p) {
			n++
		}
	}
	return n
}

func firstLine(s string) string {
	if i := strings.IndexByte(s, '\n'); i >= 0 {
		return s[:i]
	}
	return s
}

// ---------------------------------------------------------------------------
// C06: parsing recovers the structure written

func argsMatch(exp []Arg, got []ast.Node) string {
	if len(exp) != len(got) {
		return fmt.Sprintf("%d entries, want %d", len(got), len(exp))
	}
	for i, e := range exp {
		switch g := got[i].(type) {
		case ast.String:
			if e.Ident || g.Text != e.Text {
				return fmt.Sprintf("entry %d is string %s, want %+v", i, q(g.Text), e)
			}
		case ast.Ident:
			if !e.Ident || g.Name != e.Text {
				return fmt.Sprintf("entry %d is ident %s, want %+v", i, g.Name, e)
			}
		default:
			return fmt.Sprintf("entry %d has type %T", i, got[i])
		}
	}
	return ""
}

// CheckC06 compares the parse of text with the structure f it was rendered from.
func CheckC06(f File, text string) *Verdict {
	tree, err := parser.New(text).Parse()
	if err != nil {
		return &Verdict{"admissible-layout-rejected", "parse error: " + firstLine(err.Error())}
	}
	// empty comments carry nothing; drop them on both sides
	var nodes []ast.Node
	for _, n := range tree.Nodes {
		if c, ok := n.(ast.Comment); ok && strings.TrimSpace(c.Text) == "" {
			continue
		}
		nodes = append(nodes, n)
	}
	var exp []Stmt
	for _, s := range f {
		if s.Kind == KComment && strings.TrimSpace(s.Text) == "" {
			continue
		}
		exp = append(exp, s)
	}
	if len(nodes) != len(exp) {
		return &Verdict{"statement-count", fmt.Sprintf("parsed %d statements, wrote %d", len(nodes), len(exp))}
	}
	for i, s := range exp {
		switch s.Kind {
		case KComment:
			c, ok := nodes[i].(ast.Comment)
			if !ok {
				return &Verdict{"statement-kind", fmt.Sprintf("statement %d is %T, wrote a comment", i, nodes[i])}
			}
			if strings.TrimSpace(c.Text) != strings.TrimSpace(s.Text) {
				return &Verdict{"comment-text", fmt.Sprintf("comment %s, wrote %s", q(c.Text), q(s.Text))}
			}
		case KAssign:
			a, ok := nodes[i].(ast.Assign)
			if !ok {
				return &Verdict{"statement-kind", fmt.Sprintf("statement %d is %T, wrote an assignment", i, nodes[i])}
			}
			if a.Name.Name != s.Name {
				return &Verdict{"assign-name", fmt.Sprintf("variable %s, wrote %s", q(a.Name.Name), q(s.Name))}
			}
			if s.IsCall {
				fn, ok := a.Value.(ast.Function)
				if !ok {
					return &Verdict{"assign-value-kind", fmt.Sprintf("value is %T, wrote a call", a.Value)}
				}
				if fn.Name.Name != s.Fn {
					return &Verdict{"call-name", fmt.Sprintf("call %s, wrote %s", fn.Name.Name, s.Fn)}
				}
				if m := argsMatch(s.Args, fn.Arguments); m != "" {
					return &Verdict{"call-args", m}
				}
			} else {
				st, ok := a.Value.(ast.String)
				if !ok {
					return &Verdict{"assign-value-kind", fmt.Sprintf("value is %T, wrote a string", a.Value)}
				}
				if st.Text != s.Text {
					return &Verdict{"string-text", fmt.Sprintf("string %s, wrote %s", q(st.Text), q(s.Text))}
				}
			}
		case KTask:
			t, ok := nodes[i].(ast.Task)
			if !ok {
				return &Verdict{"statement-kind", fmt.Sprintf("statement %d is %T, wrote a task", i, nodes[i])}
			}
			if t.Name.Name != s.Name {
				return &Verdict{"task-name", fmt.Sprintf("task %s, wrote %s", q(t.Name.Name), q(s.Name))}
			}
			wantDoc := ""
			if s.HasDoc {
				wantDoc = strings.TrimSpace(s.Doc)
			}
			if strings.TrimSpace(t.Docstring.Text) != wantDoc {
				return &Verdict{"docstring", fmt.Sprintf("docstring %s, wrote %s", q(t.Docstring.Text), q(wantDoc))}
			}
			if m := argsMatch(s.Deps, t.Dependencies); m != "" {
				return &Verdict{"dependencies", m}
			}
			if m := argsMatch(s.Outs, t.Outputs); m != "" {
				return &Verdict{"outputs", m}
			}
			if len(t.Commands) != len(s.Cmds) {
				return &Verdict{"command-count", fmt.Sprintf("%d commands, wrote %d", len(t.Commands), len(s.Cmds))}
			}
			for j, c := range s.Cmds {
				if t.Commands[j].Command != c {
					return &Verdict{"command-text", fmt.Sprintf("command %d is %s, wrote %s", j, q(t.Commands[j].Command), q(c))}
				}
			}
		}
	}
	return nil
}
