package lang

import (
	"os"
	"strings"
	"unicode/utf8"
)

// Sigma is the 25-symbol alphabet: one representative per character class the
// scanner distinguishes.
var Sigma = []string{
	"task", " ", "\n", "\r\n", "\t", "#", "(", ")", "{", "}", "{{", "}}", `"`, ",", ":=", "->",
	"a", "_", "é", "1", ".", "$", "*", "\xff", ":",
}

// EditSyms are the symbols inserted/substituted by the edit neighbourhoods: Sigma plus
// a few bytes outside it (a lone carriage return, backslash, NUL, the pieces of the
// two-byte operators, a single quote, and Unicode white space that is not ASCII).
var EditSyms = append(append([]string{}, Sigma...), "\r", "\\", "\x00", "=", "-", ">", "'", "\u00a0", "\u2028", "\v",
	"\u0085", "\ufeff", "e\u0301", "\U0001d49c", "\u200d", "task ", "\n#\n", " \"%s\"", " \"50%\"", " 'q'")

// Input is one generated input with its provenance.
type Input struct {
	Text       string
	File       File // non-nil for structure renderings
	Admissible bool
	Desc       string
}

// Space is an indexable family of items; item i may yield several inputs.
type Space interface {
	Name() string
	Count() int64
	Gen(i int64, emit func(Input))
}

// ---------------------------------------------------------------------------

// SigmaSpace: all strings of exactly/at most N symbols. Item = one symbol sequence.
// Sequences with adjacent "{","{" or "}","}" are skipped: the same bytes arise from
// the "{{" / "}}" symbols, so every emitted byte string is distinct.
type SigmaSpace struct{ N int }

func (s SigmaSpace) Name() string { return "sigma" }
func (s SigmaSpace) Count() int64 {
	var tot, p int64 = 0, 1
	for l := 0; l <= s.N; l++ {
		tot += p
		p *= int64(len(Sigma))
	}
	return tot
}

func (s SigmaSpace) Gen(i int64, emit func(Input)) {
	// find length
	var p int64 = 1
	l := 0
	for i >= p {
		i -= p
		p *= int64(len(Sigma))
		l++
	}
	idx := make([]int, l)
	for k := l - 1; k >= 0; k-- {
		idx[k] = int(i % int64(len(Sigma)))
		i /= int64(len(Sigma))
	}
	buf := make([]byte, 0, 4*l)
	for k, c := range idx {
		if k > 0 && ((c == 8 && idx[k-1] == 8) || (c == 9 && idx[k-1] == 9)) {
			return
		}
		buf = append(buf, Sigma[c]...)
	}
	emit(Input{Text: string(buf), Desc: "sigma"})
}

// ---------------------------------------------------------------------------

// StructSpace: files of exactly NStmts statements over an alphabet, each rendered
// in every layout with <= K deviations.
type StructSpace struct {
	Label string
	Alpha []Stmt
	N     int
	K     int
	Ext   bool
}

func (s StructSpace) Name() string { return s.Label }
func (s StructSpace) Count() int64 {
	c := int64(1)
	for i := 0; i < s.N; i++ {
		c *= int64(len(s.Alpha))
	}
	return c
}

func (s StructSpace) FileAt(i int64) File {
	f := make(File, s.N)
	for k := s.N - 1; k >= 0; k-- {
		f[k] = s.Alpha[i%int64(len(s.Alpha))]
		i /= int64(len(s.Alpha))
	}
	return f
}

func (s StructSpace) Gen(i int64, emit func(Input)) {
	f := s.FileAt(i)
	if !Normal(f) {
		return
	}
	f.Layouts(s.K, s.Ext, func(r Rendering) {
		emit(Input{Text: r.Text, File: f, Admissible: r.Admissible, Desc: s.Label})
	})
}

// ---------------------------------------------------------------------------

// EditSpace: for each base text, every prefix and every single-symbol
// insert / delete / substitute over EditSyms at every rune position; Pairs adds every
// pair of such edits (for short bases). One item = (base, chunk): the first-level
// edits are dealt round-robin over Chunks items so that a base can be shared out
// over several workers.
type EditSpace struct {
	Label  string
	Bases  []string
	Pairs  bool
	Chunks int
}

func (s EditSpace) Name() string { return s.Label }
func (s EditSpace) chunks() int64 {
	if s.Chunks <= 0 {
		return 1
	}
	return int64(s.Chunks)
}
func (s EditSpace) Count() int64 { return int64(len(s.Bases)) * s.chunks() }

func runeBounds(t string) []int {
	var b []int
	for i := 0; i < len(t); {
		b = append(b, i)
		_, w := utf8.DecodeRuneInString(t[i:])
		i += w
	}
	return append(b, len(t))
}

func singleEdits(t string, emit func(string)) {
	b := runeBounds(t)
	for _, p := range b { // prefixes (truncation)
		emit(t[:p])
	}
	for k := 0; k+1 < len(b); k++ { // deletions and substitutions
		emit(t[:b[k]] + t[b[k+1]:])
		for _, sym := range EditSyms {
			emit(t[:b[k]] + sym + t[b[k+1]:])
		}
	}
	for _, p := range b { // insertions
		for _, sym := range EditSyms {
			emit(t[:p] + sym + t[p:])
		}
	}
}

func (s EditSpace) Gen(i int64, emit func(Input)) {
	base := s.Bases[i/s.chunks()]
	chunk := i % s.chunks()
	if chunk == 0 {
		emit(Input{Text: base, Desc: s.Label})
	}
	var k int64
	singleEdits(base, func(e string) {
		k++
		if k%s.chunks() != chunk {
			return
		}
		emit(Input{Text: e, Desc: s.Label})
		if s.Pairs {
			singleEdits(e, func(e2 string) { emit(Input{Text: e2, Desc: s.Label}) })
		}
	})
}

// ByteSweepSpace: every single byte value 0x00..0xff inserted at, and substituted
// for, every byte position of each base (one item per base and position chunk).
type ByteSweepSpace struct {
	Label string
	Bases []string
}

func (s ByteSweepSpace) Name() string { return s.Label }
func (s ByteSweepSpace) Count() int64 { return int64(len(s.Bases)) * 8 }
func (s ByteSweepSpace) Gen(i int64, emit func(Input)) {
	base := s.Bases[i/8]
	chunk := int(i % 8)
	for pos := 0; pos <= len(base); pos++ {
		if pos%8 != chunk {
			continue
		}
		for b := 0; b < 256; b++ {
			emit(Input{Text: base[:pos] + string([]byte{byte(b)}) + base[pos:], Desc: s.Label})
			if pos < len(base) {
				emit(Input{Text: base[:pos] + string([]byte{byte(b)}) + base[pos+1:], Desc: s.Label})
			}
		}
	}
}

// LongLineSpace: short inputs (every string of <= N alphabet symbols) placed below a
// very long line (a comment, a string value, a dependency list, a command), so that
// anything sized by "a reasonable line" or "a reasonable token" is exceeded.
type LongLineSpace struct {
	Label string
	N     int
	Len   int
}

func (s LongLineSpace) Name() string { return s.Label }
func (s LongLineSpace) Count() int64 { return SigmaSpace{N: s.N}.Count() }
func (s LongLineSpace) Gen(i int64, emit func(Input)) {
	long := strings.Repeat("x", s.Len)
	SigmaSpace{N: s.N}.Gen(i, func(in Input) {
		for _, pre := range []string{
			"# " + long + "\n",
			"X := \"" + long + "\"\n",
			"task t(\"" + long + "\") {\n    echo " + long + "\n}\n",
		} {
			emit(Input{Text: pre + in.Text, Desc: s.Label})
			emit(Input{Text: in.Text + "\n" + pre, Desc: s.Label})
		}
	})
}

// BigFileSpace: whole files far larger than any buffer (64 KiB to 1 MiB) made of
// thousands of small statements, so that thousands of tokens cross the lexer/parser
// hand-over; every string of <= N alphabet symbols is appended so the tail varies.
// Item i = (size class, unit, tail).
type BigFileSpace struct {
	Label string
	N     int
}

var bigUnits = []string{
	"X := \"x\"\n",
	"# c\ntask a(\"x.go\", b) -> (\"o\", X) {\n    echo {{.X}} a\n    go test ./...\n}\n\n",
	"task a() { echo a }\n",
}
var bigSizes = []int{60 << 10, 66 << 10, 101 << 10, 300 << 10, 1100 << 10}

func (s BigFileSpace) Name() string { return s.Label }
func (s BigFileSpace) Count() int64 {
	return int64(len(bigUnits)*len(bigSizes)) * SigmaSpace{N: s.N}.Count()
}
func (s BigFileSpace) Gen(i int64, emit func(Input)) {
	k := int(i % int64(len(bigUnits)*len(bigSizes)))
	unit, size := bigUnits[k%len(bigUnits)], bigSizes[k/len(bigUnits)]
	body := strings.Repeat(unit, size/len(unit)+1)
	SigmaSpace{N: s.N}.Gen(i/int64(len(bigUnits)*len(bigSizes)), func(in Input) {
		emit(Input{Text: body + in.Text, Desc: s.Label})
	})
}

// RepeatSpace: a few files in which several names are defined more than once, each emitted
// Times times. Whatever a parser does about duplicates, it has to do the same every time;
// the order in which Go iterates a map is the one thing here that cannot be enumerated, so
// it is varied by repetition (each input is parsed twice by the C08 oracle).
type RepeatSpace struct {
	Label string
	Times int
}

var repeatTexts = []string{
	"task a() {}\ntask b() {}\ntask a() {}\ntask b() {}\n",
	"task a() {}\ntask a() {}\ntask b() {}\ntask b() {}\ntask c() {}\ntask c() {}\n",
	"X := \"1\"\nY := \"1\"\nX := \"2\"\nY := \"2\"\ntask a(\"x\") -> X {}\ntask a(\"y\") -> Y {}\n",
	"task a() {}\ntask b(a) {}\ntask c(b) {}\ntask c(a) {}\ntask b(c) {}\ntask a(b) {}\ntask d( {\n",
	"task a(\"x\") {}\ntask b(\"x\", \"x\") -> (\"o\", \"o\") {}\ntask a(\"x\") {}\ntask b() {}\n",
}

func (s RepeatSpace) Name() string { return s.Label }
func (s RepeatSpace) Count() int64 { return int64(len(repeatTexts)) }
func (s RepeatSpace) Gen(i int64, emit func(Input)) {
	for k := 0; k < s.Times; k++ {
		emit(Input{Text: repeatTexts[i], Desc: s.Label})
	}
}

// CanonicalBases renders every normal file of n statements over alpha canonically.
func CanonicalBases(alpha []Stmt, n int, maxLen int) []string {
	sp := StructSpace{Alpha: alpha, N: n}
	var out []string
	for i := int64(0); i < sp.Count(); i++ {
		f := sp.FileAt(i)
		if !Normal(f) {
			continue
		}
		t := f.Canonical()
		if maxLen > 0 && len(t) > maxLen {
			continue
		}
		out = append(out, t)
	}
	return out
}

// RepoBases are the repository's own spokfiles (edit neighbourhoods replace the
// "coverage-guided mutation" of the quantifier text).
func RepoBases(repo string) []string {
	var out []string
	for _, p := range []string{repo + "/spokfile", repo + "/docs/src/spokfile"} {
		if b, err := os.ReadFile(p); err == nil {
			out = append(out, string(b))
		}
	}
	out = append(out, "# This is a spokfile example\n\nVERSION := \"0.3.0\"\n\n# Run the unit tests\ntask test(\"**/*.go\") {\n    go test ./...\n}\n\n# Which version am I\ntask version() {\n    echo {{.VERSION}}\n}\n")
	return out
}

// Spaces returns the spaces of a tier. forC06 restricts to structure spaces without
// extended deviations or keyword-prefixed names.
func Spaces(tier string, forC06 bool, repo string) []Space {
	thorough := tier == "thorough"
	k1, k2 := 1, 1
	if thorough {
		k1, k2 = 2, 2
	}
	ext := !forC06
	sp := []Space{
		StructSpace{Label: "struct1-full", Alpha: FullStatements(ext), N: 1, K: k1, Ext: ext},
		StructSpace{Label: "struct2-reduced", Alpha: ReducedStatements(ext), N: 2, K: k2, Ext: ext},
	}
	k3 := 1
	if !thorough && !forC06 {
		k3 = 0 // canonical layout only: the point of this space in the quick tier is the statement sequences
	}
	sp = append(sp, StructSpace{Label: "struct3-small", Alpha: SmallStatements(), N: 3, K: k3, Ext: ext})
	sp = append(sp, StructSpace{Label: "struct2-longlists", Alpha: LongListStatements(), N: 2, K: 1, Ext: ext})
	sp = append(sp, StructSpace{Label: "struct3-longlists", Alpha: LongListStatements(), N: 3, K: 0, Ext: ext})
	if forC06 {
		return sp
	}
	n := 5
	if thorough {
		n = 6
	}
	sp = append(sp, SigmaSpace{N: n})
	bases := CanonicalBases(ReducedStatements(true), 1, 0)
	bases = append(bases, CanonicalBases(SmallStatements(), 2, 0)...)
	// every pair of reduced statements that renders in <= 70 bytes (thorough: <= 120)
	limit := 70
	if thorough {
		limit = 120
	}
	bases = append(bases, CanonicalBases(ReducedStatements(true), 2, limit)...)
	sp = append(sp, EditSpace{Label: "edit1", Bases: bases})
	sp = append(sp, EditSpace{Label: "edit1-repo", Bases: RepoBases(repo), Chunks: 64})
	sweep := []string{"# c\nX := \"x\"\n", "task a(\"x\", b) -> (\"o\", X) {\n    echo {{.X}}\n}\n", "Y := join(\"a\", \"b\")\ntask b() { go test }\n"}
	if thorough {
		sweep = append(sweep, CanonicalBases(ReducedStatements(true), 1, 0)...)
	}
	sp = append(sp, ByteSweepSpace{Label: "byte-sweep", Bases: sweep})
	ll := LongLineSpace{Label: "long-lines", N: 2, Len: 70000}
	if thorough {
		ll.N = 3
	}
	sp = append(sp, ll)
	bf := BigFileSpace{Label: "big-files", N: 1}
	if thorough {
		bf.N = 2
	}
	sp = append(sp, bf)
	sp = append(sp, RepeatSpace{Label: "repeated-definitions", Times: 150})
	if thorough {
		sp = append(sp, EditSpace{Label: "edit2", Bases: CanonicalBases(ReducedStatements(true), 1, 40), Pairs: true, Chunks: 32})
	} else {
		// two tiny programs with every pair of edits
		sp = append(sp, EditSpace{Label: "edit2-tiny", Bases: []string{"task a() {\n    echo a\n}\n", "# c\ntask a(\"x\") -> X {}\n"}, Pairs: true, Chunks: 128})
	}
	return sp
}
