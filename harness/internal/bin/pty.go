package bin

import (
	"bytes"
	"fmt"
	"io"
	"os"
	"os/exec"
	"regexp"
	"strings"
	"syscall"
	"time"
	"unsafe"

	"verifharness/internal/pool"
)

// openPty returns the two ends of a fresh pseudo terminal with the given size.
func openPty(cols, rows int) (master, slave *os.File, err error) {
	master, err = os.OpenFile("/dev/ptmx", os.O_RDWR|syscall.O_NOCTTY, 0)
	if err != nil {
		return nil, nil, err
	}
	var unlock int32
	if _, _, e := syscall.Syscall(syscall.SYS_IOCTL, master.Fd(), syscall.TIOCSPTLCK, uintptr(unsafe.Pointer(&unlock))); e != 0 {
		master.Close()
		return nil, nil, e
	}
	var n uint32
	if _, _, e := syscall.Syscall(syscall.SYS_IOCTL, master.Fd(), syscall.TIOCGPTN, uintptr(unsafe.Pointer(&n))); e != 0 {
		master.Close()
		return nil, nil, e
	}
	slave, err = os.OpenFile(fmt.Sprintf("/dev/pts/%d", n), os.O_RDWR|syscall.O_NOCTTY, 0)
	if err != nil {
		master.Close()
		return nil, nil, err
	}
	ws := struct{ Row, Col, X, Y uint16 }{uint16(rows), uint16(cols), 0, 0}
	if _, _, e := syscall.Syscall(syscall.SYS_IOCTL, master.Fd(), syscall.TIOCSWINSZ, uintptr(unsafe.Pointer(&ws))); e != 0 {
		master.Close()
		slave.Close()
		return nil, nil, e
	}
	return master, slave, nil
}

var ansi = regexp.MustCompile("\x1b\\[[0-9;?]*[A-Za-z]")

// RunPty is Run with standard input, output and error attached to a pseudo terminal of
// cols columns. Out.Stdout is everything the terminal received, with the line discipline's
// carriage returns and any colour sequences removed. ok is false when no pseudo terminal
// could be had (then nothing ran).
func RunPty(cwd, home string, env []string, cols int, args ...string) (out Out, ok bool) {
	master, slave, err := openPty(cols, 24)
	if err != nil {
		return Out{}, false
	}
	defer master.Close()
	cmd := exec.Command(Spok(), args...)
	cmd.Dir = cwd
	cmd.Env = append([]string{"HOME=" + home, "PWD=" + cwd, "PATH=/usr/bin:/bin", "NO_COLOR=1", "TERM=xterm", fmt.Sprintf("COLUMNS=%d", cols)}, env...)
	cmd.Stdin, cmd.Stdout, cmd.Stderr = slave, slave, slave
	pool.AsNobody(cmd)
	if err := cmd.Start(); err != nil {
		slave.Close()
		fmt.Fprintf(os.Stderr, "harness error: cannot start spok on a pty: %v\n", err)
		os.Exit(2)
	}
	slave.Close()
	var buf bytes.Buffer
	rd := make(chan struct{})
	go func() {
		io.Copy(&buf, master) // ends with EIO once the last slave descriptor is closed
		close(rd)
	}()
	done := make(chan error, 1)
	go func() { done <- cmd.Wait() }()
	select {
	case err = <-done:
	case <-time.After(60 * time.Second):
		cmd.Process.Kill()
		err = <-done
		out.TimedOut = true
	}
	select {
	case <-rd:
	case <-time.After(5 * time.Second):
		master.Close()
		<-rd
	}
	out.Stdout = ansi.ReplaceAllString(strings.ReplaceAll(buf.String(), "\r", ""), "")
	if err != nil {
		if ee, isExit := err.(*exec.ExitError); isExit {
			out.Exit = ee.ExitCode()
			if ws, isWs := ee.Sys().(syscall.WaitStatus); isWs && ws.Signaled() {
				out.Signal = ws.Signal().String()
			}
		} else {
			out.Exit = -1
		}
	}
	return out, true
}
