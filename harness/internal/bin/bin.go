// Package bin runs the built spok binary inside a sandbox directory as an
// unprivileged user and takes recursive snapshots of the sandbox.
package bin

import (
	"bytes"
	"crypto/sha256"
	"encoding/hex"
	"fmt"
	"io/fs"
	"os"
	"os/exec"
	"path/filepath"
	"sort"
	"strings"
	"syscall"
	"time"

	"verifharness/internal/pool"
)

// Spok is the path of the binary built from /repo's working tree by ./check.
func Spok() string {
	if p := os.Getenv("VERIF_SPOK"); p != "" {
		return p
	}
	fmt.Fprintln(os.Stderr, "harness error: VERIF_SPOK not set (run through ./check)")
	os.Exit(2)
	return ""
}

type Out struct {
	Exit     int
	Signal   string
	TimedOut bool
	Stdout   string
	Stderr   string
}

func (o Out) Died() bool { return o.Signal != "" || o.TimedOut }

// Run executes spok with cwd, HOME=home and extra environment, as nobody.
// The environment is minimal and fully specified (no ambient leakage).
func Run(cwd, home string, env []string, args ...string) Out {
	return RunUmask(cwd, home, env, -1, args...)
}

// RunUmask is Run with the file mode creation mask of the spok process set to umask (-1: inherited).
func RunUmask(cwd, home string, env []string, umask int, args ...string) Out {
	cmd := exec.Command(Spok(), args...)
	if umask >= 0 {
		sh := fmt.Sprintf(`umask %04o; exec "$0" "$@"`, umask)
		cmd = exec.Command("/bin/sh", append([]string{"-c", sh, Spok()}, args...)...)
	}
	cmd.Dir = cwd
	cmd.Env = append([]string{"HOME=" + home, "PWD=" + cwd, "PATH=/usr/bin:/bin", "NO_COLOR=1", "TERM=dumb"}, env...)
	var so, se bytes.Buffer
	cmd.Stdout, cmd.Stderr = &so, &se
	pool.AsNobody(cmd)
	var out Out
	if err := cmd.Start(); err != nil {
		fmt.Fprintf(os.Stderr, "harness error: cannot start spok: %v\n", err)
		os.Exit(2)
	}
	done := make(chan error, 1)
	go func() { done <- cmd.Wait() }()
	var err error
	select {
	case err = <-done:
	case <-time.After(60 * time.Second):
		cmd.Process.Kill()
		err = <-done
		out.TimedOut = true
	}
	out.Stdout, out.Stderr = so.String(), se.String()
	if err != nil {
		if ee, ok := err.(*exec.ExitError); ok {
			out.Exit = ee.ExitCode()
			if ws, ok := ee.Sys().(syscall.WaitStatus); ok && ws.Signaled() {
				out.Signal = ws.Signal().String()
			}
		} else {
			out.Exit = -1
		}
	}
	return out
}

// Start launches spok like Run but returns at once; the caller waits on the command.
func Start(cwd, home string, env []string, args ...string) (*exec.Cmd, *bytes.Buffer, *bytes.Buffer, error) {
	cmd := exec.Command(Spok(), args...)
	cmd.Dir = cwd
	cmd.Env = append([]string{"HOME=" + home, "PWD=" + cwd, "PATH=/usr/bin:/bin", "NO_COLOR=1", "TERM=dumb"}, env...)
	var so, se bytes.Buffer
	cmd.Stdout, cmd.Stderr = &so, &se
	pool.AsNobody(cmd)
	err := cmd.Start()
	return cmd, &so, &se, err
}

// Entry of a snapshot.
type Entry struct {
	Kind string // file | dir | link | other
	Mode fs.FileMode
	Sum  string
}

type Snapshot map[string]Entry

// Snap walks root recursively (paths relative to root).
func Snap(root string) Snapshot {
	s := Snapshot{}
	filepath.WalkDir(root, func(p string, d fs.DirEntry, err error) error {
		if err != nil {
			return nil
		}
		rel, _ := filepath.Rel(root, p)
		info, err := os.Lstat(p)
		if err != nil {
			return nil
		}
		e := Entry{Mode: info.Mode().Perm()}
		switch {
		case info.Mode().IsRegular():
			e.Kind = "file"
			if b, err := os.ReadFile(p); err == nil {
				h := sha256.Sum256(b)
				e.Sum = hex.EncodeToString(h[:8])
			} else {
				e.Sum = "unreadable"
			}
		case info.IsDir():
			e.Kind = "dir"
		case info.Mode()&os.ModeSymlink != 0:
			e.Kind = "link"
			e.Sum, _ = os.Readlink(p)
		default:
			e.Kind = "other"
		}
		s[rel] = e
		return nil
	})
	return s
}

// Diff lists removed, added and changed paths (sorted).
func Diff(before, after Snapshot) (removed, added, changed []string) {
	for p, e := range before {
		a, ok := after[p]
		if !ok {
			removed = append(removed, p)
		} else if a != e {
			changed = append(changed, p)
		}
	}
	for p := range after {
		if _, ok := before[p]; !ok {
			added = append(added, p)
		}
	}
	sort.Strings(removed)
	sort.Strings(added)
	sort.Strings(changed)
	return
}

// Tree builds files under root and hands them to the unprivileged user.
type Tree struct{ Root string }

func (t Tree) own(p string) {
	if os.Geteuid() == 0 {
		os.Lchown(p, 65534, 65534)
	}
}

func (t Tree) Mkdir(rel string) string {
	full := filepath.Join(t.Root, rel)
	cur := t.Root
	for _, part := range strings.Split(filepath.Clean(rel), string(filepath.Separator)) {
		if part == "." || part == "" {
			continue
		}
		cur = filepath.Join(cur, part)
		if err := os.Mkdir(cur, 0o755); err == nil {
			t.own(cur)
		}
	}
	return full
}

func (t Tree) File(rel, content string) string {
	t.Mkdir(filepath.Dir(rel))
	full := filepath.Join(t.Root, rel)
	os.WriteFile(full, []byte(content), 0o644)
	t.own(full)
	return full
}

// Reset empties root (keeping it) and makes it writable for the unprivileged user.
func (t Tree) Reset() {
	ents, _ := os.ReadDir(t.Root)
	for _, e := range ents {
		p := filepath.Join(t.Root, e.Name())
		filepath.Walk(p, func(q string, info os.FileInfo, err error) error {
			if err == nil && info.IsDir() {
				os.Chmod(q, 0o755)
			}
			return nil
		})
		os.RemoveAll(p)
	}
	os.MkdirAll(t.Root, 0o755)
	t.own(t.Root)
}
