// Package pool runs shards of work in crash-isolated worker subprocesses (the
// harness binary re-invoked with "worker ..."), 16 at a time.
package pool

import (
	"bytes"
	"encoding/binary"
	"encoding/json"
	"fmt"
	"os"
	"os/exec"
	"path/filepath"
	"runtime"
	"strconv"
	"sync"
	"sync/atomic"
	"syscall"
	"time"
)

// Outcome of one worker process.
type Outcome struct {
	Stdout   []byte
	Stderr   []byte
	ExitCode int    // -1 if killed by signal
	Signal   string // non-empty if killed by a signal
	TimedOut bool
	Progress [2]int64 // last announced (item, ordinal)
	Notes    [][]byte // what the worker noted as it went (one JSON value each)
}

func (o Outcome) Crashed() bool { return o.ExitCode != 0 || o.Signal != "" || o.TimedOut }

// Scratch is the per-run sandbox root under /dev/shm (removed by Cleanup).
var Scratch string

func Init() {
	base := "/dev/shm"
	if st, err := os.Stat(base); err != nil || !st.IsDir() {
		base = os.TempDir()
	}
	Scratch = filepath.Join(base, "verif."+strconv.Itoa(os.Getpid()))
	os.RemoveAll(Scratch)
	if err := os.MkdirAll(Scratch, 0o755); err != nil {
		fmt.Fprintf(os.Stderr, "harness error: %v\n", err)
		os.Exit(2)
	}
}

func Cleanup() {
	if Scratch != "" {
		// make everything removable (tests create unreadable entries)
		filepath.Walk(Scratch, func(p string, info os.FileInfo, err error) error {
			if err == nil && info.IsDir() {
				os.Chmod(p, 0o755)
			}
			return nil
		})
		os.RemoveAll(Scratch)
	}
}

// AsNobody makes a command run as uid/gid 65534 when we are root.
func AsNobody(cmd *exec.Cmd) {
	if os.Geteuid() == 0 && os.Getenv("VERIF_NO_DROP") == "" {
		cmd.SysProcAttr = &syscall.SysProcAttr{Credential: &syscall.Credential{Uid: 65534, Gid: 65534, NoSetGroups: false, Groups: []uint32{}}}
	}
}

// ChownNobody hands a sandbox directory to the unprivileged worker user.
func ChownNobody(path string) {
	if os.Geteuid() == 0 && os.Getenv("VERIF_NO_DROP") == "" {
		os.Chown(path, 65534, 65534)
	}
}

var seq atomic.Int64

// RunWorker runs `self worker args...` with a progress file and a wall-clock backstop.
// Note appends one JSON value (a finding) to the worker's notes file, at once. The parent
// reads the notes of a worker that did not live to print its result (Outcome.Notes).
func Note(v any) {
	p := os.Getenv("VERIF_NOTES")
	if p == "" {
		return
	}
	if f, err := os.OpenFile(p, os.O_WRONLY|os.O_APPEND, 0); err == nil {
		f.Write(append(MustJSON(v), '\n'))
		f.Close()
	}
}

func RunWorker(args []string, stdin []byte, timeout time.Duration, nobody bool, extraEnv ...string) Outcome {
	self, err := os.Executable()
	if err != nil {
		fmt.Fprintf(os.Stderr, "harness error: %v\n", err)
		os.Exit(2)
	}
	prog := filepath.Join(Scratch, fmt.Sprintf("progress.%d", seq.Add(1)))
	os.WriteFile(prog, make([]byte, 16), 0o666)
	os.Chmod(prog, 0o666)
	defer os.Remove(prog)
	// findings a worker notes as it goes (Note): they survive the worker running out of its time budget
	notes := prog + ".notes"
	os.WriteFile(notes, nil, 0o666)
	os.Chmod(notes, 0o666)
	defer os.Remove(notes)
	cmd := exec.Command(self, append([]string{"worker"}, args...)...)
	cmd.Env = append(os.Environ(), "GOMAXPROCS=1", "VERIF_PROGRESS="+prog, "VERIF_NOTES="+notes, "GOTRACEBACK=single")
	cmd.Env = append(cmd.Env, extraEnv...)
	cmd.Stdin = bytes.NewReader(stdin)
	var so, se bytes.Buffer
	cmd.Stdout = &so
	cmd.Stderr = &se
	if nobody {
		AsNobody(cmd)
	}
	var out Outcome
	if err := cmd.Start(); err != nil {
		fmt.Fprintf(os.Stderr, "harness error: cannot start worker: %v\n", err)
		os.Exit(2)
	}
	done := make(chan error, 1)
	go func() { done <- cmd.Wait() }()
	select {
	case err = <-done:
	case <-time.After(timeout):
		cmd.Process.Kill()
		err = <-done
		out.TimedOut = true
	}
	out.Stdout, out.Stderr = so.Bytes(), se.Bytes()
	if err != nil {
		if ee, ok := err.(*exec.ExitError); ok {
			out.ExitCode = ee.ExitCode()
			if ws, ok := ee.Sys().(syscall.WaitStatus); ok && ws.Signaled() {
				out.Signal = ws.Signal().String()
			}
		} else {
			out.ExitCode = -1
		}
	}
	if b, err := os.ReadFile(prog); err == nil && len(b) >= 16 {
		out.Progress[0] = int64(binary.LittleEndian.Uint64(b[0:8]))
		out.Progress[1] = int64(binary.LittleEndian.Uint64(b[8:16]))
	}
	if b, err := os.ReadFile(notes); err == nil {
		for _, l := range bytes.Split(b, []byte{'\n'}) {
			if len(l) > 0 {
				out.Notes = append(out.Notes, l)
			}
		}
	}
	return out
}

// Progress is used inside workers to announce the case about to be executed.
type Progress struct {
	f   *os.File
	buf [16]byte
	Cnt atomic.Int64
}

func OpenProgress() *Progress {
	p := &Progress{}
	if path := os.Getenv("VERIF_PROGRESS"); path != "" {
		p.f, _ = os.OpenFile(path, os.O_WRONLY, 0)
	}
	return p
}

func (p *Progress) Announce(item, ord int64) {
	p.Cnt.Add(1)
	if p.f == nil {
		return
	}
	binary.LittleEndian.PutUint64(p.buf[0:8], uint64(item))
	binary.LittleEndian.PutUint64(p.buf[8:16], uint64(ord))
	p.f.WriteAt(p.buf[:], 0)
}

// Watchdog exits the worker with status 3 when no case completes for d.
func (p *Progress) Watchdog(d time.Duration) {
	go func() {
		last := p.Cnt.Load()
		lastChange := time.Now()
		for {
			time.Sleep(500 * time.Millisecond)
			c := p.Cnt.Load()
			if c != last {
				last, lastChange = c, time.Now()
				continue
			}
			if time.Since(lastChange) > d {
				fmt.Fprintln(os.Stderr, "WATCHDOG: no progress")
				os.Exit(3)
			}
		}
	}()
}

// Parallel runs fn for i in [0,n) on up to NumCPU goroutines.
func Parallel(n int, fn func(i int)) {
	w := runtime.NumCPU()
	if v, err := strconv.Atoi(os.Getenv("VERIF_WORKERS")); err == nil && v > 0 {
		w = v
	}
	var wg sync.WaitGroup
	var next atomic.Int64
	for k := 0; k < w; k++ {
		wg.Add(1)
		go func() {
			defer wg.Done()
			for {
				i := int(next.Add(1) - 1)
				if i >= n {
					return
				}
				fn(i)
			}
		}()
	}
	wg.Wait()
}

// JSON helpers
func MustJSON(v any) []byte {
	b, err := json.Marshal(v)
	if err != nil {
		panic(err)
	}
	return b
}
