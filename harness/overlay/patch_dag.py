#!/usr/bin/env python3
"""Derives a controlled-iteration copy of collections/dag/dag.go.

The two `range` loops over a Go map inside Sort (whose order the language leaves
unspecified) iterate over a slice in insertion order, permuted by dag.VerifOrder when
the harness sets it. Everything else is byte-identical to the original. Fails loudly
if the original no longer has the expected shape."""
import sys
src, dst = sys.argv[1], sys.argv[2]
s = open(src).read()

def rep(old, new, count=1):
    global s
    if s.count(old) != count:
        sys.stderr.write("patch_dag: expected %d occurrence(s) of %r, found %d\n" % (count, old, s.count(old)))
        sys.exit(2)
    s = s.replace(old, new)

rep('\titem     T                    // The actual data\n', '\titem     T                    // The actual data\n\tseq      int\n')
rep('\tedges    int              // The current number of edges in the graph\n', '\tedges    int              // The current number of edges in the graph\n\tnextSeq  int\n')
rep('\tg.vertices[id] = newVertex(item)\n', '\tnv := newVertex(item)\n\tnv.seq = g.nextSeq\n\tg.nextSeq++\n\tg.vertices[id] = nv\n')
rep('\tfor _, vertex := range g.vertices {\n', '\tfor _, vertex := range verifOrderMap(g.vertices) {\n')
rep('\t\tfor child := range vert.children.Items() {\n', '\t\tfor _, child := range verifOrderSet(vert.children) {\n')
s += '''
// ---- verification overlay (not part of the upstream file) ----

// VerifOrder, when non-nil, picks the iteration order of the two map iterations in
// Sort: called with n >= 2 it returns a permutation of 0..n-1.
var VerifOrder func(n int) []int

// VerifFileOrder, when non-nil, picks the iteration order of spok's own maps in file/file.go
// (see overlay/patch_file.py): called with n >= 2 it returns a permutation of 0..n-1.
var VerifFileOrder func(n int) []int

func verifPermute[T any](vs []*vertex[T]) []*vertex[T] {
	for i := 1; i < len(vs); i++ { // insertion sort by creation order (no new imports in an overlay)
		for j := i; j > 0 && vs[j].seq < vs[j-1].seq; j-- {
			vs[j], vs[j-1] = vs[j-1], vs[j]
		}
	}
	if VerifOrder == nil || len(vs) < 2 {
		return vs
	}
	p := VerifOrder(len(vs))
	out := make([]*vertex[T], len(vs))
	for i, k := range p {
		out[i] = vs[k]
	}
	return out
}

func verifOrderMap[K comparable, T any](m map[K]*vertex[T]) []*vertex[T] {
	vs := make([]*vertex[T], 0, len(m))
	for _, v := range m {
		vs = append(vs, v)
	}
	return verifPermute(vs)
}

func verifOrderSet[T any](s *set.Set[*vertex[T]]) []*vertex[T] {
	vs := make([]*vertex[T], 0, s.Size())
	for v := range s.Items() {
		vs = append(vs, v)
	}
	return verifPermute(vs)
}
'''
open(dst, 'w').write(s)
