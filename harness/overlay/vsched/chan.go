package vsched

import (
	"fmt"
	"reflect"
)

// Chan models a Go channel. Unbuffered send = offer (enabled when the slot is free)
// followed by ack (enabled once a receiver took the value): observationally a
// rendezvous. Buffered channels are queues. Closing with a pending offer makes the
// sender panic, as in Go.
type Chan[T any] struct {
	real chan T // pass-through mode

	id     uint64
	capn   int
	buf    []T
	slot   *sendRec[T] // pending unbuffered offer
	closed bool
	selVal T // value received by the last select clause on this channel
	selOK  bool
}

type sendRec[T any] struct {
	val    T
	acked  bool
	killed bool // channel closed while the offer was pending
}

func NewChan[T any](n int) *Chan[T] {
	s := cur
	if s == nil || s.aborted {
		return &Chan[T]{real: make(chan T, n)}
	}
	c := &Chan[T]{id: s.newObjID(), capn: n}
	s.objs = append(s.objs, c)
	return c
}

func (c *Chan[T]) stateKey() uint64 {
	var sv any
	if c.slot != nil {
		sv = fmt.Sprintf("%s/%v/%v", ValKey(c.slot.val), c.slot.acked, c.slot.killed)
	}
	return mix(c.id, c.closed, len(c.buf), ValKey(c.buf), sv)
}

func never() bool { return false }

func (c *Chan[T]) Send(v T) {
	if c != nil && c.real != nil {
		c.real <- v
		return
	}
	s := cur
	if s == nil {
		panic("vsched: controlled channel used outside Run")
	}
	if c == nil {
		s.yield(&op{kind: "send-nil-chan", enabled: never})
		return
	}
	if c.capn > 0 {
		s.yield(&op{kind: "send", obj: c.id, enabled: func() bool { return c.closed || len(c.buf) < c.capn }})
		if c.closed {
			panic("send on closed channel")
		}
		c.buf = append(c.buf, v)
		s.note("sent", ValKey(v))
		return
	}
	s.yield(&op{kind: "send", obj: c.id, enabled: func() bool { return c.closed || c.slot == nil }})
	if c.closed {
		panic("send on closed channel")
	}
	rec := &sendRec[T]{val: v}
	c.slot = rec
	s.note("offered", ValKey(v))
	s.yield(&op{kind: "send-ack", obj: c.id, enabled: func() bool { return rec.acked || rec.killed }})
	if rec.killed {
		panic("send on closed channel")
	}
}

func (c *Chan[T]) recv() (T, bool) {
	var zero T
	if c != nil && c.real != nil {
		v, ok := <-c.real
		return v, ok
	}
	s := cur
	if s == nil {
		panic("vsched: controlled channel used outside Run")
	}
	if c == nil {
		s.yield(&op{kind: "recv-nil-chan", enabled: never})
		return zero, false
	}
	s.yield(&op{kind: "recv", obj: c.id, recvOn: []uint64{c.id}, enabled: func() bool {
		return len(c.buf) > 0 || (c.slot != nil && !c.slot.acked && !c.slot.killed) || c.closed
	}})
	if len(c.buf) > 0 {
		v := c.buf[0]
		c.buf = c.buf[1:]
		s.note("recv", ValKey(v))
		return v, true
	}
	if c.slot != nil && !c.slot.acked && !c.slot.killed {
		rec := c.slot
		rec.acked = true
		c.slot = nil
		s.note("recv", ValKey(rec.val))
		return rec.val, true
	}
	s.note("recv-closed")
	return zero, false
}

func (c *Chan[T]) Recv() T {
	v, _ := c.recv()
	return v
}

func (c *Chan[T]) Recv2() (T, bool) { return c.recv() }

func (c *Chan[T]) Close() {
	if c != nil && c.real != nil {
		close(c.real)
		return
	}
	s := cur
	if s == nil {
		panic("vsched: controlled channel used outside Run")
	}
	s.yield(&op{kind: "close", obj: c.idOrZero(), enabled: func() bool { return true }})
	if c == nil {
		panic("close of nil channel")
	}
	if c.closed {
		panic("close of closed channel")
	}
	c.closed = true
	if c.slot != nil {
		c.slot.killed = true
		c.slot = nil
	}
}

func (c *Chan[T]) idOrZero() uint64 {
	if c == nil {
		return 0
	}
	return c.id
}

func (c *Chan[T]) Len() int {
	if c == nil {
		return 0
	}
	if c.real != nil {
		return len(c.real)
	}
	return len(c.buf)
}

func (c *Chan[T]) Cap() int {
	if c == nil {
		return 0
	}
	if c.real != nil {
		return cap(c.real)
	}
	return c.capn
}

// ---------------------------------------------------------------------------
// select

// SelCase is one communication clause of a select statement.
type SelCase struct {
	id     uint64
	isRecv bool
	ready  func() bool
	commit func()
	// pass-through mode (outside Run): the real channel, value to send, and receiver of the result
	rchan reflect.Value
	rsend reflect.Value
	rset  func(v reflect.Value, ok bool)
}

// CaseRecv is `case ... <-c`.
func (c *Chan[T]) CaseRecv() SelCase {
	if c == nil {
		return SelCase{isRecv: true, ready: never, commit: func() {}}
	}
	return SelCase{id: c.id, isRecv: true,
		ready: func() bool {
			return len(c.buf) > 0 || (c.slot != nil && !c.slot.acked && !c.slot.killed) || c.closed
		},
		commit: func() {
			var zero T
			s := cur
			switch {
			case len(c.buf) > 0:
				c.selVal, c.selOK = c.buf[0], true
				c.buf = c.buf[1:]
			case c.slot != nil && !c.slot.acked && !c.slot.killed:
				rec := c.slot
				rec.acked = true
				c.slot = nil
				c.selVal, c.selOK = rec.val, true
			default:
				c.selVal, c.selOK = zero, false
			}
			s.note("sel-recv", ValKey(c.selVal), c.selOK)
		},
		rchan: reflect.ValueOf(c.real),
		rset: func(v reflect.Value, ok bool) {
			var zero T
			c.selVal, c.selOK = zero, ok
			if ok {
				c.selVal, _ = v.Interface().(T)
			}
		},
	}
}

// CaseSend is `case c <- v`.
func (c *Chan[T]) CaseSend(v T) SelCase {
	if c == nil {
		return SelCase{ready: never, commit: func() {}}
	}
	return SelCase{id: c.id,
		ready: func() bool {
			if c.closed {
				return true
			}
			if c.capn > 0 {
				return len(c.buf) < c.capn
			}
			return c.slot == nil && cur.receiverWaiting(c.id)
		},
		commit: func() {
			if c.closed {
				panic("send on closed channel")
			}
			if c.capn > 0 {
				c.buf = append(c.buf, v)
			} else {
				// a receiver is blocked on this channel: hand the value over, no ack needed
				c.slot = &sendRec[T]{val: v}
			}
			cur.note("sel-sent", ValKey(v))
		},
		rchan: reflect.ValueOf(c.real),
		rsend: reflect.ValueOf(&v).Elem(),
	}
}

// SelRecv / SelRecv2 return the value received by the select clause that was chosen.
func (c *Chan[T]) SelRecv() T          { return c.selVal }
func (c *Chan[T]) SelRecv2() (T, bool) { return c.selVal, c.selOK }

// Select picks a ready clause (every ready clause is an alternative, as in Go) and
// commits it; it returns the clause index, or -1 for the default clause.
func Select(hasDefault bool, cases ...SelCase) int {
	s := cur
	if s == nil || s.aborted {
		return realSelect(hasDefault, cases)
	}
	var recvOn []uint64
	for _, c := range cases {
		if c.isRecv && c.id != 0 {
			recvOn = append(recvOn, c.id)
		}
	}
	anyReady := func() bool {
		for _, c := range cases {
			if c.ready() {
				return true
			}
		}
		return false
	}
	s.yield(&op{kind: "select", recvOn: recvOn, enabled: func() bool { return hasDefault || anyReady() }})
	var ready []int
	for i, c := range cases {
		if c.ready() {
			ready = append(ready, i)
		}
	}
	if len(ready) == 0 {
		s.note("select-default")
		return -1
	}
	k := 0
	if len(ready) > 1 {
		k = s.choose(len(ready), false, false)
	}
	s.note("select", ready[k])
	cases[ready[k]].commit()
	return ready[k]
}
