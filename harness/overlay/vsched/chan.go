package vsched

import "fmt"

// Chan models a Go channel. Unbuffered send = offer (enabled when the slot is free)
// followed by ack (enabled once a receiver took the value): observationally a
// rendezvous. Buffered channels are queues. Closing with a pending offer makes the
// sender panic, as in Go.
type Chan[T any] struct {
	real chan T // pass-through mode

	id     uint64
	capn   int
	buf    []T
	slot   *sendRec[T] // pending unbuffered offer
	closed bool
}

type sendRec[T any] struct {
	val    T
	acked  bool
	killed bool // channel closed while the offer was pending
}

func NewChan[T any](n int) *Chan[T] {
	s := cur
	if s == nil || s.aborted {
		return &Chan[T]{real: make(chan T, n)}
	}
	c := &Chan[T]{id: s.newObjID(), capn: n}
	s.objs = append(s.objs, c)
	return c
}

func (c *Chan[T]) stateKey() uint64 {
	var sv any
	if c.slot != nil {
		sv = fmt.Sprintf("%s/%v/%v", ValKey(c.slot.val), c.slot.acked, c.slot.killed)
	}
	return mix(c.id, c.closed, len(c.buf), ValKey(c.buf), sv)
}

func never() bool { return false }

func (c *Chan[T]) Send(v T) {
	if c != nil && c.real != nil {
		c.real <- v
		return
	}
	s := cur
	if s == nil {
		panic("vsched: controlled channel used outside Run")
	}
	if c == nil {
		s.yield(&op{kind: "send-nil-chan", enabled: never})
		return
	}
	if c.capn > 0 {
		s.yield(&op{kind: "send", obj: c.id, enabled: func() bool { return c.closed || len(c.buf) < c.capn }})
		if c.closed {
			panic("send on closed channel")
		}
		c.buf = append(c.buf, v)
		s.note("sent", ValKey(v))
		return
	}
	s.yield(&op{kind: "send", obj: c.id, enabled: func() bool { return c.closed || c.slot == nil }})
	if c.closed {
		panic("send on closed channel")
	}
	rec := &sendRec[T]{val: v}
	c.slot = rec
	s.note("offered", ValKey(v))
	s.yield(&op{kind: "send-ack", obj: c.id, enabled: func() bool { return rec.acked || rec.killed }})
	if rec.killed {
		panic("send on closed channel")
	}
}

func (c *Chan[T]) recv() (T, bool) {
	var zero T
	if c != nil && c.real != nil {
		v, ok := <-c.real
		return v, ok
	}
	s := cur
	if s == nil {
		panic("vsched: controlled channel used outside Run")
	}
	if c == nil {
		s.yield(&op{kind: "recv-nil-chan", enabled: never})
		return zero, false
	}
	s.yield(&op{kind: "recv", obj: c.id, enabled: func() bool {
		return len(c.buf) > 0 || (c.slot != nil && !c.slot.acked && !c.slot.killed) || c.closed
	}})
	if len(c.buf) > 0 {
		v := c.buf[0]
		c.buf = c.buf[1:]
		s.note("recv", ValKey(v))
		return v, true
	}
	if c.slot != nil && !c.slot.acked && !c.slot.killed {
		rec := c.slot
		rec.acked = true
		c.slot = nil
		s.note("recv", ValKey(rec.val))
		return rec.val, true
	}
	s.note("recv-closed")
	return zero, false
}

func (c *Chan[T]) Recv() T {
	v, _ := c.recv()
	return v
}

func (c *Chan[T]) Recv2() (T, bool) { return c.recv() }

func (c *Chan[T]) Close() {
	if c != nil && c.real != nil {
		close(c.real)
		return
	}
	s := cur
	if s == nil {
		panic("vsched: controlled channel used outside Run")
	}
	s.yield(&op{kind: "close", obj: c.idOrZero(), enabled: func() bool { return true }})
	if c == nil {
		panic("close of nil channel")
	}
	if c.closed {
		panic("close of closed channel")
	}
	c.closed = true
	if c.slot != nil {
		c.slot.killed = true
		c.slot = nil
	}
}

func (c *Chan[T]) idOrZero() uint64 {
	if c == nil {
		return 0
	}
	return c.id
}

func (c *Chan[T]) Len() int {
	if c == nil {
		return 0
	}
	if c.real != nil {
		return len(c.real)
	}
	return len(c.buf)
}

func (c *Chan[T]) Cap() int {
	if c == nil {
		return 0
	}
	if c.real != nil {
		return cap(c.real)
	}
	return c.capn
}
