package vsched

import "reflect"

// realSelect implements Select outside controlled executions with reflect.Select
// on the underlying real channels.
func realSelect(hasDefault bool, cases []SelCase) int {
	rc := make([]reflect.SelectCase, 0, len(cases)+1)
	for _, c := range cases {
		switch {
		case !c.rchan.IsValid() || c.rchan.IsNil():
			rc = append(rc, reflect.SelectCase{Dir: reflect.SelectRecv, Chan: reflect.ValueOf((chan struct{})(nil))})
		case c.isRecv:
			rc = append(rc, reflect.SelectCase{Dir: reflect.SelectRecv, Chan: c.rchan})
		default:
			rc = append(rc, reflect.SelectCase{Dir: reflect.SelectSend, Chan: c.rchan, Send: c.rsend})
		}
	}
	if hasDefault {
		rc = append(rc, reflect.SelectCase{Dir: reflect.SelectDefault})
	}
	i, val, ok := reflect.Select(rc)
	if hasDefault && i == len(rc)-1 {
		return -1
	}
	if cases[i].isRecv && cases[i].rset != nil {
		cases[i].rset(val, ok)
	}
	return i
}
