// Package vsched is the controlled-scheduler shim that mechanically rewritten spok
// packages use instead of channels, `go`, sync and a few os/io calls.
//
// Outside a controlled execution (Run not active) every primitive passes straight
// through to the real Go primitive, so the rest of the program behaves normally.
// Inside Run exactly one thread runs at a time; before every synchronisation
// operation, I/O call and environment choice the thread yields to the scheduler,
// which picks the next thread according to a choice sequence owned by the explorer.
package vsched

import (
	"fmt"
	"hash/fnv"
	"runtime/debug"
	"strings"
)

// ---------------------------------------------------------------------------
// execution record

// Point is one choice point of an execution.
type Point struct {
	Width   int  // number of alternatives
	Taken   int  // alternative taken
	Preempt bool // scheduling point at which the running thread was still enabled (alt>0 = preemption)
	Env     bool // environment choice (alt>0 = deviation)
}

// Result of one controlled execution.
type Result struct {
	Points    []Point
	Deadlock  bool     // main thread blocked forever
	Leaked    int      // threads still blocked after main returned and everything else quiesced
	Livelock  bool     // op budget exceeded
	Panics    []string // panics in any thread (a goroutine panic kills the real process)
	Pruned    bool     // stopped because the state was already visited
	Ops       int
	Threads   int
	LeakedAt  []string
	BlockedAt []string
	Diverged  string // replay divergence (harness error)
}

// Options of one execution.
type Options struct {
	Prefix  []int
	NumCPU  int
	Budget  int             // max ops per execution (0 = 100000)
	Visited map[uint64]bool // state-key pruning (nil = off); only consulted beyond the prefix
	Faults  bool            // offer fault-injection choices at Open/Copy/ReadFile
}

type abortSignal struct{}

type thread struct {
	id      int
	wake    chan struct{}
	done    bool
	pending *op
	h       uint64 // hash of this thread's operation/return history
	nobj    int
	exited  chan struct{}
}

type op struct {
	kind    string
	obj     uint64
	enabled func() bool
	recvOn  []uint64 // channels this blocked operation is ready to receive from (rendezvous with select-send)
}

type sched struct {
	opt      Options
	threads  []*thread
	running  *thread
	res      *Result
	aborted  bool
	mainDone bool
	done     chan struct{}
	objs     []stateful
	// openAnswer: paths for which the environment has answered "out of file descriptors" in this execution;
	// later opens of the same path get the same answer
	openAnswer map[string]int
}

type stateful interface{ stateKey() uint64 }

var cur *sched

// Active reports whether a controlled execution is in progress.
func Active() bool { return cur != nil }

// Run executes body under the controlled scheduler.
func Run(opt Options, body func()) *Result {
	if cur != nil {
		panic("vsched: nested Run")
	}
	if opt.Budget == 0 {
		opt.Budget = 100000
	}
	if opt.NumCPU == 0 {
		opt.NumCPU = 1
	}
	s := &sched{opt: opt, res: &Result{}, done: make(chan struct{})}
	cur = s
	main := s.newThread()
	s.running = main
	go s.threadBody(main, body)
	main.wake <- struct{}{}
	<-s.done
	cur = nil
	s.res.Threads = len(s.threads)
	return s.res
}

func (s *sched) newThread() *thread {
	t := &thread{id: len(s.threads), wake: make(chan struct{}, 1), exited: make(chan struct{})}
	s.threads = append(s.threads, t)
	return t
}

func (s *sched) threadBody(t *thread, body func()) {
	<-t.wake
	defer func() {
		if r := recover(); r != nil {
			if _, ok := r.(abortSignal); !ok {
				s.res.Panics = append(s.res.Panics, fmt.Sprintf("thread %d: %v\n%s", t.id, r, trimStack(string(debug.Stack()))))
				s.aborted = true
			}
		}
		t.done = true
		t.pending = nil
		if t.id == 0 {
			s.mainDone = true
		}
		close(t.exited)
		s.dispatch(t)
	}()
	if s.aborted {
		return
	}
	t.pending = nil
	body()
}

func trimStack(st string) string {
	lines := strings.Split(st, "\n")
	var keep []string
	for _, l := range lines {
		if strings.Contains(l, "/spok/") && !strings.Contains(l, "zzverif") {
			keep = append(keep, strings.TrimSpace(l))
		}
		if len(keep) >= 6 {
			break
		}
	}
	return strings.Join(keep, "\n")
}

func mix(h uint64, vals ...any) uint64 {
	f := fnv.New64a()
	fmt.Fprintf(f, "%x|", h)
	for _, v := range vals {
		f.Write([]byte(ValKey(v)))
		f.Write([]byte{'|'})
	}
	return f.Sum64()
}

// note adds a value to the running thread's history hash.
func (s *sched) note(vals ...any) {
	s.running.h = mix(s.running.h, vals...)
}

func (s *sched) newObjID() uint64 {
	t := s.running
	t.nobj++
	return uint64(t.id)<<32 | uint64(t.nobj)
}

// yield announces the running thread's next operation and lets the scheduler pick
// who goes next; it returns when this thread has been chosen and its op is enabled.
func (s *sched) yield(o *op) {
	if s.aborted {
		panic(abortSignal{})
	}
	t := s.running
	t.pending = o
	s.res.Ops++
	if s.res.Ops > s.opt.Budget {
		s.res.Livelock = true
		s.aborted = true
		panic(abortSignal{})
	}
	next := s.pick(t)
	if next == nil {
		// nobody, including this thread, can make progress
		s.classify()
		s.aborted = true
		panic(abortSignal{})
	}
	if next != t {
		s.running = next
		next.wake <- struct{}{}
		<-t.wake
		if s.aborted {
			panic(abortSignal{})
		}
	}
	t.pending = nil
	t.h = mix(t.h, o.kind, o.obj)
}

func (s *sched) stateKey() uint64 {
	f := fnv.New64a()
	for _, t := range s.threads {
		k, o := "", uint64(0)
		if t.pending != nil {
			k, o = t.pending.kind, t.pending.obj
		}
		fmt.Fprintf(f, "T%d:%v:%x:%s:%x;", t.id, t.done, t.h, k, o)
	}
	for _, ob := range s.objs {
		fmt.Fprintf(f, "O%x;", ob.stateKey())
	}
	return f.Sum64()
}

// choose consumes one choice.
func (s *sched) choose(width int, preempt, env bool) int {
	i := len(s.res.Points)
	v := 0
	if i < len(s.opt.Prefix) {
		v = s.opt.Prefix[i]
		if v >= width {
			s.res.Diverged = fmt.Sprintf("replay divergence at point %d: choice %d of %d", i, v, width)
			s.aborted = true
			panic(abortSignal{})
		}
	}
	s.res.Points = append(s.res.Points, Point{Width: width, Taken: v, Preempt: preempt, Env: env})
	return v
}

// pick selects the next thread to run among those whose pending op is enabled.
// from is the thread giving up control (it may be chosen again).
func (s *sched) pick(from *thread) *thread {
	var enabled []*thread
	fromEnabled := false
	if !from.done && from.pending != nil && from.pending.enabled() {
		enabled = append(enabled, from)
		fromEnabled = true
	}
	for _, t := range s.threads {
		if t != from && !t.done && t.pending != nil && t.pending.enabled() {
			enabled = append(enabled, t)
		}
	}
	if len(enabled) == 0 {
		return nil
	}
	if len(enabled) == 1 {
		return enabled[0]
	}
	if s.opt.Visited != nil && len(s.res.Points) >= len(s.opt.Prefix) {
		k := s.stateKey()
		if s.opt.Visited[k] {
			s.res.Pruned = true
			s.aborted = true
			panic(abortSignal{})
		}
		s.opt.Visited[k] = true
	}
	return enabled[s.choose(len(enabled), fromEnabled, false)]
}

// dispatch is called by a thread that has just finished: hand control on, or end
// the execution (deadlock / leak detection).
func (s *sched) dispatch(from *thread) {
	if !s.aborted {
		var next *thread
		func() {
			defer func() {
				if r := recover(); r != nil {
					if _, ok := r.(abortSignal); !ok {
						panic(r)
					}
				}
			}()
			next = s.pick(from)
		}()
		if next != nil && !s.aborted {
			s.running = next
			next.wake <- struct{}{}
			return
		}
	}
	// nobody can run (or the execution was aborted): classify and unwind
	if !s.aborted {
		s.classify()
	}
	s.aborted = true
	for _, t := range s.threads {
		if !t.done {
			// wake it so that it unwinds with abortSignal; its deferred exit calls dispatch again
			s.running = t
			t.wake <- struct{}{}
			return
		}
	}
	close(s.done)
}

// classify records why the execution cannot continue: threads that are not done
// are blocked forever (deadlock if main is among them, leaked goroutines otherwise).
func (s *sched) classify() {
	for _, t := range s.threads {
		if !t.done {
			where := "?"
			if t.pending != nil {
				where = fmt.Sprintf("thread %d blocked at %s", t.id, t.pending.kind)
			}
			if !s.mainDone {
				s.res.Deadlock = true
				s.res.BlockedAt = append(s.res.BlockedAt, where)
			} else {
				s.res.Leaked++
				s.res.LeakedAt = append(s.res.LeakedAt, where)
			}
		}
	}
}

// ---------------------------------------------------------------------------
// public primitives

// FreePanic, when set, receives the panic value of any goroutine started by Go outside Run
// (free-running mode) instead of letting it take the process down.
var FreePanic func(v any)

// Go starts fn in a new scheduler-controlled thread (or a plain goroutine outside Run).
func Go(fn func()) {
	s := cur
	if s == nil {
		if h := FreePanic; h != nil {
			go func() {
				defer func() {
					if r := recover(); r != nil {
						h(r)
					}
				}()
				fn()
			}()
			return
		}
		go fn()
		return
	}
	if s.aborted {
		return
	}
	s.yield(&op{kind: "go", enabled: func() bool { return true }})
	t := s.newThread()
	t.pending = &op{kind: "start", enabled: func() bool { return true }}
	go s.threadBody(t, fn)
}

// Yield is a pure scheduling point.
func Yield(kind string) {
	if s := cur; s != nil && !s.aborted {
		s.yield(&op{kind: kind, enabled: func() bool { return true }})
	}
}

// Choose is an environment choice point (alternative 0 is the default answer).
func Choose(n int, kind string) int {
	s := cur
	if s == nil || n <= 1 {
		return 0
	}
	if s.aborted {
		panic(abortSignal{})
	}
	v := s.choose(n, false, true)
	s.note("choose", kind, v)
	return v
}

// Note records an observed value in the running thread's history (for state keys).
func Note(vals ...any) {
	if s := cur; s != nil && !s.aborted {
		s.note(vals...)
	}
}

// NumCPU is an environment answer set by the harness.
func NumCPU() int {
	if s := cur; s != nil {
		return s.opt.NumCPU
	}
	return realNumCPU()
}

// receiverWaiting reports whether a thread other than the running one is blocked in
// a receive (or a select with a receive case) on channel id.
func (s *sched) receiverWaiting(id uint64) bool {
	for _, t := range s.threads {
		if t == s.running || t.done || t.pending == nil {
			continue
		}
		for _, r := range t.pending.recvOn {
			if r == id {
				return true
			}
		}
	}
	return false
}

// FaultsEnabled reports whether fault choices are offered in this execution.
func FaultsEnabled() bool { return cur != nil && cur.opt.Faults }
