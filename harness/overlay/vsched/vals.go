package vsched

import (
	"fmt"
	"reflect"
	"sort"
	"strings"
)

// ValKey renders a value without any memory address in it, so that two executions
// that observe "the same" value produce the same state key (fmt prints nested
// pointers as addresses, which would defeat state matching).
func ValKey(v any) string {
	var sb strings.Builder
	valKey(&sb, reflect.ValueOf(v), 0)
	return sb.String()
}

func valKey(sb *strings.Builder, v reflect.Value, depth int) {
	if !v.IsValid() {
		sb.WriteString("nil")
		return
	}
	if depth > 8 {
		sb.WriteString("...")
		return
	}
	if v.CanInterface() && (v.Kind() != reflect.Ptr && v.Kind() != reflect.Interface || !v.IsNil()) {
		if e, ok := v.Interface().(error); ok {
			sb.WriteString("E:" + e.Error())
			return
		}
	}
	switch v.Kind() {
	case reflect.Ptr, reflect.Interface:
		if v.IsNil() {
			sb.WriteString("nil")
			return
		}
		valKey(sb, v.Elem(), depth+1)
	case reflect.Struct:
		sb.WriteString(v.Type().Name() + "{")
		for i := 0; i < v.NumField(); i++ {
			valKey(sb, v.Field(i), depth+1)
			sb.WriteByte(',')
		}
		sb.WriteByte('}')
	case reflect.Slice, reflect.Array:
		if v.Kind() == reflect.Slice && v.Type().Elem().Kind() == reflect.Uint8 {
			fmt.Fprintf(sb, "%x", v.Bytes())
			return
		}
		sb.WriteByte('[')
		for i := 0; i < v.Len(); i++ {
			valKey(sb, v.Index(i), depth+1)
			sb.WriteByte(',')
		}
		sb.WriteByte(']')
	case reflect.Map:
		var items []string
		it := v.MapRange()
		for it.Next() {
			var kb, vb strings.Builder
			valKey(&kb, it.Key(), depth+1)
			valKey(&vb, it.Value(), depth+1)
			items = append(items, kb.String()+":"+vb.String())
		}
		sort.Strings(items)
		sb.WriteString("map[" + strings.Join(items, ",") + "]")
	case reflect.String:
		sb.WriteString(v.String())
	case reflect.Bool:
		fmt.Fprint(sb, v.Bool())
	case reflect.Int, reflect.Int8, reflect.Int16, reflect.Int32, reflect.Int64:
		fmt.Fprint(sb, v.Int())
	case reflect.Uint, reflect.Uint8, reflect.Uint16, reflect.Uint32, reflect.Uint64, reflect.Uintptr:
		fmt.Fprint(sb, v.Uint())
	case reflect.Float32, reflect.Float64:
		fmt.Fprint(sb, v.Float())
	default: // chan, func, unsafe pointer: identity not observable here
		sb.WriteString(v.Kind().String())
	}
}
