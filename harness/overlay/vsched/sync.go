package vsched

import "sync"

// WaitGroup mirrors sync.WaitGroup.
type WaitGroup struct {
	real sync.WaitGroup
	id   uint64
	n    int
	reg  bool
}

func (w *WaitGroup) ctl() *sched {
	s := cur
	if s == nil || s.aborted {
		return nil
	}
	if !w.reg {
		w.reg = true
		w.id = s.newObjID()
		s.objs = append(s.objs, w)
	}
	return s
}

func (w *WaitGroup) stateKey() uint64 { return mix(w.id, w.n) }

func (w *WaitGroup) Add(d int) {
	s := w.ctl()
	if s == nil {
		if cur == nil {
			w.real.Add(d)
		}
		return
	}
	s.yield(&op{kind: "wg-add", obj: w.id, enabled: func() bool { return true }})
	w.n += d
	if w.n < 0 {
		panic("sync: negative WaitGroup counter")
	}
}

func (w *WaitGroup) Done() { w.Add(-1) }

func (w *WaitGroup) Wait() {
	s := w.ctl()
	if s == nil {
		if cur == nil {
			w.real.Wait()
		}
		return
	}
	s.yield(&op{kind: "wg-wait", obj: w.id, enabled: func() bool { return w.n == 0 }})
}

// Mutex mirrors sync.Mutex.
type Mutex struct {
	real   sync.Mutex
	id     uint64
	locked bool
	reg    bool
}

func (m *Mutex) ctl() *sched {
	s := cur
	if s == nil || s.aborted {
		return nil
	}
	if !m.reg {
		m.reg = true
		m.id = s.newObjID()
		s.objs = append(s.objs, m)
	}
	return s
}

func (m *Mutex) stateKey() uint64 { return mix(m.id, m.locked) }

func (m *Mutex) Lock() {
	s := m.ctl()
	if s == nil {
		if cur == nil {
			m.real.Lock()
		}
		return
	}
	s.yield(&op{kind: "lock", obj: m.id, enabled: func() bool { return !m.locked }})
	m.locked = true
}

func (m *Mutex) TryLock() bool {
	s := m.ctl()
	if s == nil {
		if cur == nil {
			return m.real.TryLock()
		}
		return false
	}
	s.yield(&op{kind: "trylock", obj: m.id, enabled: func() bool { return true }})
	if m.locked {
		s.note("trylock-fail")
		return false
	}
	m.locked = true
	return true
}

func (m *Mutex) Unlock() {
	s := m.ctl()
	if s == nil {
		if cur == nil {
			m.real.Unlock()
		}
		return
	}
	s.yield(&op{kind: "unlock", obj: m.id, enabled: func() bool { return true }})
	if !m.locked {
		panic("sync: unlock of unlocked mutex")
	}
	m.locked = false
}

// RWMutex mirrors sync.RWMutex (writer preference is not modelled).
type RWMutex struct {
	real    sync.RWMutex
	id      uint64
	writer  bool
	readers int
	reg     bool
}

func (m *RWMutex) ctl() *sched {
	s := cur
	if s == nil || s.aborted {
		return nil
	}
	if !m.reg {
		m.reg = true
		m.id = s.newObjID()
		s.objs = append(s.objs, m)
	}
	return s
}

func (m *RWMutex) stateKey() uint64 { return mix(m.id, m.writer, m.readers) }

func (m *RWMutex) Lock() {
	s := m.ctl()
	if s == nil {
		if cur == nil {
			m.real.Lock()
		}
		return
	}
	s.yield(&op{kind: "wlock", obj: m.id, enabled: func() bool { return !m.writer && m.readers == 0 }})
	m.writer = true
}

func (m *RWMutex) Unlock() {
	s := m.ctl()
	if s == nil {
		if cur == nil {
			m.real.Unlock()
		}
		return
	}
	s.yield(&op{kind: "wunlock", obj: m.id, enabled: func() bool { return true }})
	if !m.writer {
		panic("sync: Unlock of unlocked RWMutex")
	}
	m.writer = false
}

func (m *RWMutex) RLock() {
	s := m.ctl()
	if s == nil {
		if cur == nil {
			m.real.RLock()
		}
		return
	}
	s.yield(&op{kind: "rlock", obj: m.id, enabled: func() bool { return !m.writer }})
	m.readers++
}

func (m *RWMutex) RUnlock() {
	s := m.ctl()
	if s == nil {
		if cur == nil {
			m.real.RUnlock()
		}
		return
	}
	s.yield(&op{kind: "runlock", obj: m.id, enabled: func() bool { return true }})
	if m.readers == 0 {
		panic("sync: RUnlock of unlocked RWMutex")
	}
	m.readers--
}

// Once mirrors sync.Once.
type Once struct {
	real sync.Once
	m    Mutex
	done bool
}

func (o *Once) Do(f func()) {
	if cur == nil {
		o.real.Do(f)
		return
	}
	o.m.Lock()
	defer o.m.Unlock()
	if !o.done {
		defer func() { o.done = true }()
		f()
	}
}
