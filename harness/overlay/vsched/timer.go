package vsched

import "time"

// Timer stands in for *time.Timer in rewritten code. Under the scheduler a timer is an
// environment that may fire at any moment: its channel holds a value from the start, so
// wherever the code selects on it the explorer tries "the timer lands first" as well as
// every other enabled case. Outside Run it is a real timer.
type Timer struct {
	C    *Chan[time.Time]
	real *time.Timer
}

func NewTimer(d time.Duration) *Timer {
	t := &Timer{C: NewChan[time.Time](1)}
	if t.C.real != nil {
		ch := t.C.real
		t.real = time.AfterFunc(d, func() {
			select {
			case ch <- time.Now():
			default:
			}
		})
		return t
	}
	t.C.Send(time.Time{})
	return t
}

// After is time.After with the same treatment.
func After(d time.Duration) *Chan[time.Time] { return NewTimer(d).C }

// Stop reports whether the call stops the timer from firing (a controlled timer has "fired" already).
func (t *Timer) Stop() bool {
	if t.real != nil {
		return t.real.Stop()
	}
	return false
}

// Reset re-arms the timer.
func (t *Timer) Reset(d time.Duration) bool {
	if t.real != nil {
		return t.real.Reset(d)
	}
	if t.C.Len() == 0 {
		t.C.Send(time.Time{})
	}
	return false
}
