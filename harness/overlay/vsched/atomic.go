package vsched

import "sync/atomic"

// Atomic operations are scheduling points too: a check-then-act built from two
// atomic operations is exactly the kind of window a schedule has to be able to
// enter. Outside Run they are the plain sync/atomic operations.

func atomicPoint(kind string) {
	if s := cur; s != nil && !s.aborted {
		s.yield(&op{kind: kind, enabled: func() bool { return true }})
	}
}

type atomicInt interface {
	~int32 | ~int64 | ~uint32 | ~uint64 | ~uintptr
}

// AtomicInt32 mirrors atomic.Int32 (likewise the other widths).
type AtomicInt32 struct{ v atomic.Int32 }

func (a *AtomicInt32) Load() int32 {
	atomicPoint("atomic-load")
	r := a.v.Load()
	Note("aload", r)
	return r
}
func (a *AtomicInt32) Store(x int32) { atomicPoint("atomic-store"); a.v.Store(x) }
func (a *AtomicInt32) Swap(x int32) int32 {
	atomicPoint("atomic-swap")
	r := a.v.Swap(x)
	Note("aswap", r)
	return r
}
func (a *AtomicInt32) Add(d int32) int32 {
	atomicPoint("atomic-add")
	r := a.v.Add(d)
	Note("aadd", r)
	return r
}
func (a *AtomicInt32) CompareAndSwap(o, n int32) bool {
	atomicPoint("atomic-cas")
	r := a.v.CompareAndSwap(o, n)
	Note("acas", r)
	return r
}

type AtomicInt64 struct{ v atomic.Int64 }

func (a *AtomicInt64) Load() int64 {
	atomicPoint("atomic-load")
	r := a.v.Load()
	Note("aload", r)
	return r
}
func (a *AtomicInt64) Store(x int64) { atomicPoint("atomic-store"); a.v.Store(x) }
func (a *AtomicInt64) Swap(x int64) int64 {
	atomicPoint("atomic-swap")
	r := a.v.Swap(x)
	Note("aswap", r)
	return r
}
func (a *AtomicInt64) Add(d int64) int64 {
	atomicPoint("atomic-add")
	r := a.v.Add(d)
	Note("aadd", r)
	return r
}
func (a *AtomicInt64) CompareAndSwap(o, n int64) bool {
	atomicPoint("atomic-cas")
	r := a.v.CompareAndSwap(o, n)
	Note("acas", r)
	return r
}

type AtomicUint32 struct{ v atomic.Uint32 }

func (a *AtomicUint32) Load() uint32 {
	atomicPoint("atomic-load")
	r := a.v.Load()
	Note("aload", r)
	return r
}
func (a *AtomicUint32) Store(x uint32) { atomicPoint("atomic-store"); a.v.Store(x) }
func (a *AtomicUint32) Swap(x uint32) uint32 {
	atomicPoint("atomic-swap")
	r := a.v.Swap(x)
	Note("aswap", r)
	return r
}
func (a *AtomicUint32) Add(d uint32) uint32 {
	atomicPoint("atomic-add")
	r := a.v.Add(d)
	Note("aadd", r)
	return r
}
func (a *AtomicUint32) CompareAndSwap(o, n uint32) bool {
	atomicPoint("atomic-cas")
	r := a.v.CompareAndSwap(o, n)
	Note("acas", r)
	return r
}

type AtomicUint64 struct{ v atomic.Uint64 }

func (a *AtomicUint64) Load() uint64 {
	atomicPoint("atomic-load")
	r := a.v.Load()
	Note("aload", r)
	return r
}
func (a *AtomicUint64) Store(x uint64) { atomicPoint("atomic-store"); a.v.Store(x) }
func (a *AtomicUint64) Swap(x uint64) uint64 {
	atomicPoint("atomic-swap")
	r := a.v.Swap(x)
	Note("aswap", r)
	return r
}
func (a *AtomicUint64) Add(d uint64) uint64 {
	atomicPoint("atomic-add")
	r := a.v.Add(d)
	Note("aadd", r)
	return r
}
func (a *AtomicUint64) CompareAndSwap(o, n uint64) bool {
	atomicPoint("atomic-cas")
	r := a.v.CompareAndSwap(o, n)
	Note("acas", r)
	return r
}

type AtomicBool struct{ v atomic.Bool }

func (a *AtomicBool) Load() bool {
	atomicPoint("atomic-load")
	r := a.v.Load()
	Note("aload", r)
	return r
}
func (a *AtomicBool) Store(x bool) { atomicPoint("atomic-store"); a.v.Store(x) }
func (a *AtomicBool) Swap(x bool) bool {
	atomicPoint("atomic-swap")
	r := a.v.Swap(x)
	Note("aswap", r)
	return r
}
func (a *AtomicBool) CompareAndSwap(o, n bool) bool {
	atomicPoint("atomic-cas")
	r := a.v.CompareAndSwap(o, n)
	Note("acas", r)
	return r
}

// AtomicPointer mirrors atomic.Pointer[T].
type AtomicPointer[T any] struct{ v atomic.Pointer[T] }

func (a *AtomicPointer[T]) Load() *T {
	atomicPoint("atomic-load")
	r := a.v.Load()
	Note("aloadp", r != nil)
	return r
}
func (a *AtomicPointer[T]) Store(x *T)   { atomicPoint("atomic-store"); a.v.Store(x) }
func (a *AtomicPointer[T]) Swap(x *T) *T { atomicPoint("atomic-swap"); return a.v.Swap(x) }
func (a *AtomicPointer[T]) CompareAndSwap(o, n *T) bool {
	atomicPoint("atomic-cas")
	r := a.v.CompareAndSwap(o, n)
	Note("acas", r)
	return r
}

// AtomicValue mirrors atomic.Value.
type AtomicValue struct{ v atomic.Value }

func (a *AtomicValue) Load() any {
	atomicPoint("atomic-load")
	r := a.v.Load()
	Note("aloadv", r)
	return r
}
func (a *AtomicValue) Store(x any)    { atomicPoint("atomic-store"); a.v.Store(x) }
func (a *AtomicValue) Swap(x any) any { atomicPoint("atomic-swap"); return a.v.Swap(x) }
func (a *AtomicValue) CompareAndSwap(o, n any) bool {
	atomicPoint("atomic-cas")
	return a.v.CompareAndSwap(o, n)
}

// function forms
func AtomicLoadInt32(p *int32) int32 {
	atomicPoint("atomic-load")
	r := atomic.LoadInt32(p)
	Note("aload", r)
	return r
}
func AtomicLoadInt64(p *int64) int64 {
	atomicPoint("atomic-load")
	r := atomic.LoadInt64(p)
	Note("aload", r)
	return r
}
func AtomicLoadUint32(p *uint32) uint32 {
	atomicPoint("atomic-load")
	r := atomic.LoadUint32(p)
	Note("aload", r)
	return r
}
func AtomicLoadUint64(p *uint64) uint64 {
	atomicPoint("atomic-load")
	r := atomic.LoadUint64(p)
	Note("aload", r)
	return r
}
func AtomicStoreInt32(p *int32, v int32)    { atomicPoint("atomic-store"); atomic.StoreInt32(p, v) }
func AtomicStoreInt64(p *int64, v int64)    { atomicPoint("atomic-store"); atomic.StoreInt64(p, v) }
func AtomicStoreUint32(p *uint32, v uint32) { atomicPoint("atomic-store"); atomic.StoreUint32(p, v) }
func AtomicStoreUint64(p *uint64, v uint64) { atomicPoint("atomic-store"); atomic.StoreUint64(p, v) }
func AtomicAddInt32(p *int32, d int32) int32 {
	atomicPoint("atomic-add")
	r := atomic.AddInt32(p, d)
	Note("aadd", r)
	return r
}
func AtomicAddInt64(p *int64, d int64) int64 {
	atomicPoint("atomic-add")
	r := atomic.AddInt64(p, d)
	Note("aadd", r)
	return r
}
func AtomicAddUint32(p *uint32, d uint32) uint32 {
	atomicPoint("atomic-add")
	r := atomic.AddUint32(p, d)
	Note("aadd", r)
	return r
}
func AtomicAddUint64(p *uint64, d uint64) uint64 {
	atomicPoint("atomic-add")
	r := atomic.AddUint64(p, d)
	Note("aadd", r)
	return r
}
func AtomicCompareAndSwapInt32(p *int32, o, n int32) bool {
	atomicPoint("atomic-cas")
	r := atomic.CompareAndSwapInt32(p, o, n)
	Note("acas", r)
	return r
}
func AtomicCompareAndSwapInt64(p *int64, o, n int64) bool {
	atomicPoint("atomic-cas")
	r := atomic.CompareAndSwapInt64(p, o, n)
	Note("acas", r)
	return r
}
func AtomicCompareAndSwapUint32(p *uint32, o, n uint32) bool {
	atomicPoint("atomic-cas")
	r := atomic.CompareAndSwapUint32(p, o, n)
	Note("acas", r)
	return r
}
func AtomicCompareAndSwapUint64(p *uint64, o, n uint64) bool {
	atomicPoint("atomic-cas")
	r := atomic.CompareAndSwapUint64(p, o, n)
	Note("acas", r)
	return r
}
func AtomicSwapInt32(p *int32, n int32) int32 {
	atomicPoint("atomic-swap")
	return atomic.SwapInt32(p, n)
}
func AtomicSwapInt64(p *int64, n int64) int64 {
	atomicPoint("atomic-swap")
	return atomic.SwapInt64(p, n)
}
