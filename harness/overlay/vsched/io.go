package vsched

import (
	"errors"
	"io"
	"os"
	"runtime"
	"syscall"
)

func realNumCPU() int { return runtime.NumCPU() }

// ErrInjected is the error returned by injected faults.
var ErrInjected = errors.New("injected fault: file vanished")

// Open is os.Open preceded by a scheduling point and (when enabled) a fault choice.
func Open(name string) (*os.File, error) {
	if cur == nil || cur.aborted {
		return os.Open(name)
	}
	Yield("io-open")
	if FaultsEnabled() {
		s := cur
		if s.openAnswer == nil {
			s.openAnswer = map[string]int{}
		}
		ans, short := s.openAnswer[name]
		if !short {
			// 0 opened, 1 vanished (each open of a path is answered afresh), 2 out of file descriptors
			// (that answer sticks to the path for the rest of the execution: a shortage outlasts a retry loop)
			ans = Choose(3, "open-fault")
			if ans == 2 {
				s.openAnswer[name] = ans
			}
		}
		switch ans {
		case 1:
			Note("open-injected")
			return nil, &os.PathError{Op: "open", Path: name, Err: ErrInjected}
		case 2:
			Note("open-emfile")
			return nil, &os.PathError{Op: "open", Path: name, Err: syscall.EMFILE}
		}
	}
	f, err := os.Open(name)
	Note("open", err != nil)
	return f, err
}

// ReadFile is os.ReadFile with the same treatment.
func ReadFile(name string) ([]byte, error) {
	if cur == nil || cur.aborted {
		return os.ReadFile(name)
	}
	Yield("io-readfile")
	if FaultsEnabled() && Choose(2, "read-fault") == 1 {
		Note("read-injected")
		return nil, &os.PathError{Op: "read", Path: name, Err: ErrInjected}
	}
	b, err := os.ReadFile(name)
	Note("readfile", len(b), err != nil)
	return b, err
}

// Copy is io.Copy with a scheduling point before it and another half way through
// ("the file is being read"), plus a fault choice: the copy stops half way with an error.
func Copy(dst io.Writer, src io.Reader) (int64, error) {
	if cur == nil || cur.aborted {
		return io.Copy(dst, src)
	}
	Yield("io-copy")
	if FaultsEnabled() && Choose(2, "copy-fault") == 1 {
		n, _ := io.CopyN(dst, src, 1)
		Note("copy-injected", n)
		return n, ErrInjected
	}
	n, err := io.Copy(dst, src)
	Note("copy", n, err != nil)
	Yield("io-copy-done")
	return n, err
}

// ReadAll is io.ReadAll with a scheduling point and fault choice.
func ReadAll(r io.Reader) ([]byte, error) {
	if cur == nil || cur.aborted {
		return io.ReadAll(r)
	}
	Yield("io-readall")
	if FaultsEnabled() && Choose(2, "read-fault") == 1 {
		Note("read-injected")
		return nil, ErrInjected
	}
	b, err := io.ReadAll(r)
	Note("readall", len(b), err != nil)
	return b, err
}

// Mmap is syscall.Mmap with a fault choice: another process truncates the file while it is
// mapped. Touching the pages beyond the new end then raises SIGBUS, which no Go program
// survives ("fatal error: fault"); the model lets the thread die at once instead.
func Mmap(fd int, offset int64, length int, prot int, flags int) ([]byte, error) {
	if cur == nil || cur.aborted {
		return syscall.Mmap(fd, offset, length, prot, flags)
	}
	Yield("io-mmap")
	if FaultsEnabled() && Choose(2, "mmap-truncated") == 1 {
		Note("mmap-truncated")
		panic("SIGBUS (modelled): the mapped file was truncated by another process while its pages were being read - fatal error: fault")
	}
	b, err := syscall.Mmap(fd, offset, length, prot, flags)
	Note("mmap", len(b), err != nil)
	return b, err
}
