#!/usr/bin/env python3
"""Derives a controlled-iteration copy of spok's file/file.go.

Every `range s.Tasks` / `range s.Vars` (iterations over Go maps, whose order the language
leaves unspecified) goes through verifOrd, which - only while the harness has set
dag.VerifFileOrder - iterates the keys in sorted order permuted by that hook. With the
hook unset the map is ranged natively, so nothing changes for other checks. Everything
else is byte-identical. Tolerant by design: a tree in which these loops have been
rewritten, or which no longer imports collections/dag, is copied with whatever still
matches (possibly nothing) - the patch must never be the reason a check cannot build."""
import re, sys
src, dst = sys.argv[1], sys.argv[2]
s = open(src).read()
n = 0
if 'collections/dag"' in s and 'verifOrd' not in s:
    s, n = re.subn(r'range s\.(Tasks|Vars) \{', r'range verifOrd(s.\1) {', s)
    if n:
        s += '''
// ---- verification overlay (not part of the upstream file) ----

func verifOrd[V any](m map[string]V) func(yield func(string, V) bool) {
	return func(yield func(string, V) bool) {
		if dag.VerifFileOrder == nil || len(m) < 2 {
			for k, v := range m {
				if !yield(k, v) {
					return
				}
			}
			return
		}
		keys := make([]string, 0, len(m))
		for k := range m {
			keys = append(keys, k)
		}
		for i := 1; i < len(keys); i++ {
			for j := i; j > 0 && keys[j] < keys[j-1]; j-- {
				keys[j], keys[j-1] = keys[j-1], keys[j]
			}
		}
		for _, j := range dag.VerifFileOrder(len(keys)) {
			if !yield(keys[j], m[keys[j]]) {
				return
			}
		}
	}
}
'''
open(dst, 'w').write(s)
sys.stderr.write("patch_file: %d map iteration(s) of file.go under control\n" % n)
