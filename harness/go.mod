module verifharness

go 1.23

require (
	github.com/FollowTheProcess/spok v0.0.0
	golang.org/x/tools v0.29.0
)

replace github.com/FollowTheProcess/spok => /repo
