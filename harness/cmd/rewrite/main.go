// Command rewrite mechanically redirects the concurrency primitives of spok packages
// to the controlled scheduler shim (zzverif/vsched):
//
//	chan T, <-chan T, chan<- T      -> *vsched.Chan[T]
//	make(chan T[, n])               -> vsched.NewChan[T](n)
//	c <- v ; <-c ; v, ok := <-c     -> c.Send(v) ; c.Recv() ; c.Recv2()
//	for x := range c { B }          -> for x, ok := c.Recv2(); ok; x, ok = c.Recv2() { B }
//	close(c) ; len(c) ; cap(c)      -> c.Close() ; c.Len() ; c.Cap()
//	go f(a...)                      -> { a' := a...; vsched.Go(func() { f(a'...) }) }
//	sync.{WaitGroup,Mutex,RWMutex,Once} -> vsched.{...}
//	runtime.NumCPU()                -> vsched.NumCPU()
//	os.Open / os.ReadFile / io.Copy / io.ReadAll -> vsched wrappers (yield + fault injection point)
//	syscall.Mmap / unix.Mmap         -> vsched.Mmap (fault: the file shrinks under the mapping)
//	time.NewTimer / time.After / time.Timer -> vsched twins (a timer may fire at any scheduling point)
//
// It reads the non-test files of the named packages from the repository's working
// tree, writes the rewritten copies to -out and prints `"orig": "copy",` overlay
// entries. An unsupported construct (select) makes it fail loudly.
package main

import (
	"bytes"
	"flag"
	"fmt"
	"go/ast"
	"go/printer"
	"go/token"
	"go/types"
	"os"
	"path/filepath"
	"strconv"
	"strings"

	"golang.org/x/tools/go/ast/astutil"
	"golang.org/x/tools/go/packages"
)

const vschedPath = "github.com/FollowTheProcess/spok/zzverif/vsched"

func fatal(format string, a ...any) {
	fmt.Fprintf(os.Stderr, "rewrite: "+format+"\n", a...)
	os.Exit(2)
}

func main() {
	repo := flag.String("repo", "/repo", "repository root")
	out := flag.String("out", "", "output directory")
	flag.Parse()
	if *out == "" || flag.NArg() == 0 {
		fatal("usage: rewrite -repo DIR -out DIR pkg...")
	}
	var patterns []string
	for _, p := range flag.Args() {
		patterns = append(patterns, "./"+p)
	}
	cfg := &packages.Config{Mode: packages.NeedName | packages.NeedFiles | packages.NeedSyntax | packages.NeedTypes | packages.NeedTypesInfo | packages.NeedImports | packages.NeedDeps | packages.NeedCompiledGoFiles,
		Dir: *repo, Env: append(os.Environ(), "GOFLAGS=-mod=mod", "GOPROXY=off", "GOSUMDB=off", "GOTOOLCHAIN=local")}
	pkgs, err := packages.Load(cfg, patterns...)
	if err != nil {
		fatal("load: %v", err)
	}
	if packages.PrintErrors(pkgs) > 0 {
		fatal("packages have errors")
	}
	nrewrites := 0
	for _, pkg := range pkgs {
		for i, f := range pkg.Syntax {
			name := pkg.CompiledGoFiles[i]
			r := &rewriter{fset: pkg.Fset, info: pkg.TypesInfo, file: f}
			r.rewriteFile()
			nrewrites += r.count
			if r.count == 0 {
				continue // untouched files need no overlay entry
			}
			var buf bytes.Buffer
			if err := printer.Fprint(&buf, pkg.Fset, f); err != nil {
				fatal("print %s: %v", name, err)
			}
			dst := filepath.Join(*out, pkg.Name+"_"+filepath.Base(name))
			if err := os.WriteFile(dst, buf.Bytes(), 0o644); err != nil {
				fatal("%v", err)
			}
			fmt.Printf("%s: %s,\n", strconv.Quote(name), strconv.Quote(dst))
		}
	}
	fmt.Fprintf(os.Stderr, "rewrite: %d constructs redirected\n", nrewrites)
}

type rewriter struct {
	fset  *token.FileSet
	info  *types.Info
	file  *ast.File
	count int
	tmp   int
}

func (r *rewriter) isChan(e ast.Expr) bool {
	tv, ok := r.info.Types[e]
	if !ok || tv.Type == nil {
		return false
	}
	_, ok = tv.Type.Underlying().(*types.Chan)
	return ok
}

func vs(name string) ast.Expr {
	return &ast.SelectorExpr{X: ast.NewIdent("vsched"), Sel: ast.NewIdent(name)}
}

func call(fun ast.Expr, args ...ast.Expr) *ast.CallExpr { return &ast.CallExpr{Fun: fun, Args: args} }

func method(x ast.Expr, name string, args ...ast.Expr) *ast.CallExpr {
	return call(&ast.SelectorExpr{X: x, Sel: ast.NewIdent(name)}, args...)
}

// pkgFunc reports whether e is the selector pkgname.fn where pkgname is an imported package with the given path.
func (r *rewriter) pkgSel(e ast.Expr, path, name string) bool {
	sel, ok := e.(*ast.SelectorExpr)
	if !ok || sel.Sel.Name != name {
		return false
	}
	id, ok := sel.X.(*ast.Ident)
	if !ok {
		return false
	}
	pn, ok := r.info.Uses[id].(*types.PkgName)
	return ok && pn.Imported().Path() == path
}

func (r *rewriter) isBuiltin(e ast.Expr, name string) bool {
	id, ok := e.(*ast.Ident)
	if !ok || id.Name != name {
		return false
	}
	_, ok = r.info.Uses[id].(*types.Builtin)
	return ok
}

func (r *rewriter) rewriteFile() {
	pre := func(c *astutil.Cursor) bool {
		switch n := c.Node().(type) {
		case *ast.SelectStmt:
			c.Replace(r.selectStmt(n))
			r.count++
		case *ast.RangeStmt:
			if r.isChan(n.X) {
				c.Replace(r.rangeChan(n))
				r.count++
			}
		case *ast.AssignStmt:
			// v, ok := <-c
			if len(n.Lhs) == 2 && len(n.Rhs) == 1 {
				if u, ok := n.Rhs[0].(*ast.UnaryExpr); ok && u.Op == token.ARROW {
					n.Rhs[0] = method(u.X, "Recv2")
					r.count++
				}
			}
		case *ast.ValueSpec:
			if len(n.Names) == 2 && len(n.Values) == 1 {
				if u, ok := n.Values[0].(*ast.UnaryExpr); ok && u.Op == token.ARROW {
					n.Values[0] = method(u.X, "Recv2")
					r.count++
				}
			}
		}
		return true
	}
	post := func(c *astutil.Cursor) bool {
		switch n := c.Node().(type) {
		case *ast.ChanType:
			c.Replace(&ast.StarExpr{X: &ast.IndexExpr{X: vs("Chan"), Index: n.Value}})
			r.count++
		case *ast.SendStmt:
			c.Replace(&ast.ExprStmt{X: method(n.Chan, "Send", n.Value)})
			r.count++
		case *ast.UnaryExpr:
			if n.Op == token.ARROW {
				c.Replace(method(n.X, "Recv"))
				r.count++
			}
		case *ast.GoStmt:
			c.Replace(r.goStmt(n))
			r.count++
		case *ast.CallExpr:
			switch {
			case r.isBuiltin(n.Fun, "make") && len(n.Args) >= 1:
				if st, ok := n.Args[0].(*ast.StarExpr); ok { // already rewritten chan type
					if ix, ok := st.X.(*ast.IndexExpr); ok && isVsSel(ix.X, "Chan") {
						var size ast.Expr = &ast.BasicLit{Kind: token.INT, Value: "0"}
						if len(n.Args) > 1 {
							size = n.Args[1]
						}
						c.Replace(call(&ast.IndexExpr{X: vs("NewChan"), Index: ix.Index}, size))
						r.count++
					}
				}
			case r.isBuiltin(n.Fun, "close") && len(n.Args) == 1:
				c.Replace(method(n.Args[0], "Close"))
				r.count++
			case (r.isBuiltin(n.Fun, "len") || r.isBuiltin(n.Fun, "cap")) && len(n.Args) == 1 && r.isChan(n.Args[0]):
				name := "Len"
				if r.isBuiltin(n.Fun, "cap") {
					name = "Cap"
				}
				c.Replace(method(n.Args[0], name))
				r.count++
			case r.pkgSel(n.Fun, "runtime", "NumCPU"):
				n.Fun = vs("NumCPU")
				r.count++
			case r.pkgSel(n.Fun, "runtime", "GOMAXPROCS") && len(n.Args) == 1 && isZeroLit(n.Args[0]):
				// a query of the number of usable CPUs: the same environment answer as NumCPU
				n.Fun = vs("NumCPU")
				n.Args = nil
				r.count++
			case r.pkgSel(n.Fun, "os", "Open"):
				n.Fun = vs("Open")
				r.count++
			case r.pkgSel(n.Fun, "os", "ReadFile"):
				n.Fun = vs("ReadFile")
				r.count++
			case r.pkgSel(n.Fun, "io", "Copy"):
				n.Fun = vs("Copy")
				r.count++
			case r.pkgSel(n.Fun, "io", "ReadAll"):
				n.Fun = vs("ReadAll")
				r.count++
			case r.pkgSel(n.Fun, "time", "NewTimer"):
				// a timer is an environment that may fire at any scheduling point
				n.Fun = vs("NewTimer")
				r.count++
			case r.pkgSel(n.Fun, "time", "After"):
				n.Fun = vs("After")
				r.count++
			case r.pkgSel(n.Fun, "syscall", "Mmap"), r.pkgSel(n.Fun, "unix", "Mmap"):
				// a mapped file can be truncated by someone else: an environment answer like a failing read
				n.Fun = vs("Mmap")
				r.count++
			}
		case *ast.SelectorExpr:
			for _, t := range []string{"WaitGroup", "Mutex", "RWMutex", "Once"} {
				if r.pkgSel(n, "sync", t) {
					c.Replace(vs(t))
					r.count++
				}
			}
			if r.pkgSel(n, "time", "Timer") {
				c.Replace(vs("Timer"))
				r.count++
			}
			// sync/atomic: every type and function becomes its scheduling-point twin (an unknown
			// name fails to compile against vsched, loudly)
			if id, ok := n.X.(*ast.Ident); ok {
				if pn, ok := r.info.Uses[id].(*types.PkgName); ok && pn.Imported().Path() == "sync/atomic" {
					c.Replace(vs("Atomic" + n.Sel.Name))
					r.count++
				}
			}
		}
		return true
	}
	astutil.Apply(r.file, pre, post)
	if r.count == 0 {
		return
	}
	astutil.AddImport(r.fset, r.file, vschedPath)
	// drop imports that are no longer referenced
	for _, p := range []string{"sync", "runtime", "os", "io", "time"} {
		if !usesPkgIdent(r.file, p) {
			astutil.DeleteImport(r.fset, r.file, p)
		}
	}
	if !usesPkgIdent(r.file, "atomic") {
		astutil.DeleteImport(r.fset, r.file, "sync/atomic")
	}
}

func isZeroLit(e ast.Expr) bool {
	l, ok := e.(*ast.BasicLit)
	return ok && l.Value == "0"
}

func isVsSel(e ast.Expr, name string) bool {
	sel, ok := e.(*ast.SelectorExpr)
	if !ok || sel.Sel.Name != name {
		return false
	}
	id, ok := sel.X.(*ast.Ident)
	return ok && id.Name == "vsched"
}

// usesPkgIdent: syntactic check "name.X" with an unshadowed package identifier
// (good enough for the std packages handled here).
func usesPkgIdent(f *ast.File, name string) bool {
	used := false
	ast.Inspect(f, func(n ast.Node) bool {
		if sel, ok := n.(*ast.SelectorExpr); ok {
			if id, ok := sel.X.(*ast.Ident); ok && id.Name == name && id.Obj == nil {
				used = true
			}
		}
		return !used
	})
	return used
}

func (r *rewriter) rangeChan(n *ast.RangeStmt) ast.Stmt {
	if n.Tok == token.ASSIGN {
		fatal("%s: range over channel with '=' is not supported", r.fset.Position(n.Pos()))
	}
	var key ast.Expr = ast.NewIdent("_")
	if n.Key != nil {
		key = n.Key
	}
	ok := ast.NewIdent("vsOK")
	return &ast.ForStmt{
		Init: &ast.AssignStmt{Lhs: []ast.Expr{key, ok}, Tok: token.DEFINE, Rhs: []ast.Expr{method(n.X, "Recv2")}},
		Cond: ok,
		Post: &ast.AssignStmt{Lhs: []ast.Expr{key, ok}, Tok: token.ASSIGN, Rhs: []ast.Expr{method(n.X, "Recv2")}},
		Body: n.Body,
	}
}

// selectStmt turns
//
//	select { case v := <-c: A; case d <- x: B; default: C }
//
// into
//
//	switch vsched.Select(true, c.CaseRecv(), d.CaseSend(x)) { case 0: v := c.SelRecv(); A; case 1: B; default: C }
func (r *rewriter) selectStmt(n *ast.SelectStmt) ast.Stmt {
	var cases []ast.Expr
	var clauses []ast.Stmt
	hasDefault := "false"
	simple := func(e ast.Expr) ast.Expr {
		switch e.(type) {
		case *ast.Ident, *ast.SelectorExpr:
			return e
		}
		fatal("%s: select on a channel expression that is not a plain name is not supported", r.fset.Position(e.Pos()))
		return nil
	}
	for _, cl := range n.Body.List {
		cc := cl.(*ast.CommClause)
		if cc.Comm == nil {
			hasDefault = "true"
			clauses = append(clauses, &ast.CaseClause{List: nil, Body: cc.Body})
			continue
		}
		idx := &ast.BasicLit{Kind: token.INT, Value: strconv.Itoa(len(cases))}
		body := cc.Body
		switch st := cc.Comm.(type) {
		case *ast.SendStmt:
			cases = append(cases, method(simple(st.Chan), "CaseSend", st.Value))
		case *ast.ExprStmt: // <-c
			u, ok := st.X.(*ast.UnaryExpr)
			if !ok || u.Op != token.ARROW {
				fatal("%s: unsupported select clause", r.fset.Position(st.Pos()))
			}
			cases = append(cases, method(simple(u.X), "CaseRecv"))
		case *ast.AssignStmt: // v := <-c ; v, ok := <-c ; v = <-c
			u, ok := st.Rhs[0].(*ast.UnaryExpr)
			if !ok || u.Op != token.ARROW {
				fatal("%s: unsupported select clause", r.fset.Position(st.Pos()))
			}
			ch := simple(u.X)
			cases = append(cases, method(ch, "CaseRecv"))
			name := "SelRecv"
			if len(st.Lhs) == 2 {
				name = "SelRecv2"
			}
			assign := &ast.AssignStmt{Lhs: st.Lhs, Tok: st.Tok, Rhs: []ast.Expr{method(ch, name)}}
			body = append([]ast.Stmt{assign}, body...)
			// keep "declared and not used" away when the body ignores the variable
			for _, l := range st.Lhs {
				if id, ok := l.(*ast.Ident); ok && id.Name != "_" && st.Tok == token.DEFINE {
					body = append(body[:1], append([]ast.Stmt{&ast.AssignStmt{Lhs: []ast.Expr{ast.NewIdent("_")}, Tok: token.ASSIGN, Rhs: []ast.Expr{ast.NewIdent(id.Name)}}}, body[1:]...)...)
				}
			}
		default:
			fatal("%s: unsupported select clause", r.fset.Position(cc.Pos()))
		}
		clauses = append(clauses, &ast.CaseClause{List: []ast.Expr{idx}, Body: body})
	}
	args := append([]ast.Expr{ast.NewIdent(hasDefault)}, cases...)
	return &ast.SwitchStmt{Tag: call(vs("Select"), args...), Body: &ast.BlockStmt{List: clauses}}
}

func (r *rewriter) goStmt(n *ast.GoStmt) ast.Stmt {
	// evaluate the arguments now, run the call in a scheduler-controlled thread
	var lhs, rhs []ast.Expr
	args := make([]ast.Expr, len(n.Call.Args))
	for i, a := range n.Call.Args {
		r.tmp++
		id := ast.NewIdent("vsArg" + strconv.Itoa(r.tmp))
		lhs = append(lhs, id)
		rhs = append(rhs, a)
		args[i] = ast.NewIdent(id.Name)
	}
	inner := &ast.CallExpr{Fun: n.Call.Fun, Args: args, Ellipsis: n.Call.Ellipsis}
	spawn := &ast.ExprStmt{X: call(vs("Go"), &ast.FuncLit{
		Type: &ast.FuncType{Params: &ast.FieldList{}},
		Body: &ast.BlockStmt{List: []ast.Stmt{&ast.ExprStmt{X: inner}}},
	})}
	if len(lhs) == 0 {
		return spawn
	}
	return &ast.BlockStmt{List: []ast.Stmt{&ast.AssignStmt{Lhs: lhs, Tok: token.DEFINE, Rhs: rhs}, spawn}}
}

var _ = strings.TrimSpace
