//go:build dagctl

package main

import "github.com/FollowTheProcess/collections/dag"

// dagControlled: the build carries the controlled-iteration overlay of collections/dag.
const dagControlled = true

func setDagOrder(f func(n int) []int) { dag.VerifOrder = f }

// setFileOrder controls the iteration order of SpokFile.Tasks / SpokFile.Vars (overlay/patch_file.py).
func setFileOrder(f func(n int) []int) { dag.VerifFileOrder = f }
