package main

import (
	"bufio"
	"bytes"
	"encoding/json"
	"fmt"
	"os"
	"os/exec"
	"path/filepath"
	"regexp"
	"sort"
	"strconv"
	"strings"
	"sync"
	"syscall"
	"time"

	"verifharness/internal/bin"
	"verifharness/internal/choose"
	"verifharness/internal/ev"
	"verifharness/internal/pool"
	"verifharness/internal/proj"
)

// C10: crash-point enumeration. For every state of the force-free, failure-free
// closure of a program and every run from it, the run is executed once (per
// topological-sort order) under `strace -f`, which yields the exact order of all
// mutating syscalls on the cache and of the task markers. Every prefix of that log,
// and every byte-prefix of every cache write, is a disk state a kill can leave
// behind. From each such crash state every (edit; unforced run) continuation is
// executed by the real code and checked against the crash-updated reference model.

func init() {
	checks["C10"] = c10Check
	workers["c10"] = c10Worker
	workers["c10trace"] = c10TraceWorker
	replays["crashmc"] = c10Replay
}

// ---------------------------------------------------------------------------
// traced run (the process strace follows)

// worker: mc worker c10trace <program json> <op json> <choice prefix json>   (cwd = project dir; VERIF_SANDBOX set)
func c10TraceWorker(args []string) {
	var p hprog
	var op hop
	var prefix []int
	json.Unmarshal([]byte(args[0]), &p)
	json.Unmarshal([]byte(args[1]), &op)
	json.Unmarshal([]byte(args[2]), &prefix)
	sb := proj.AttachSandbox(os.Getenv("VERIF_SANDBOX"))
	c := choose.NewReplay(prefix)
	setDagOrder(func(n int) []int { return c.Perm(n) })
	out := sb.RunNoClear(p.text(), op.Force, op.Req...)
	res := map[string]any{"taken": c.Taken, "width": c.Width, "failed": out.Failed(), "err": out.ErrText()}
	os.Stdout.Write(pool.MustJSON(res))
}

// one mutating event of the trace, restricted to the cache directory and the marker log
type c10Event struct {
	Kind string `json:"kind"` // mkdir | trunc (open O_TRUNC / O_CREAT) | write | unlink | rename | marker
	Path string `json:"path"` // relative to the project dir (".spok/cache.json") or "VLOG"
	Data string `json:"data,omitempty"`
	To   string `json:"to,omitempty"`
}

var straceLine = regexp.MustCompile(`^(\d+)\s+(\w+)\((.*)\)\s+=\s+(-?\d+)`)

func unhex(s string) string {
	// strace -xx: every byte as \xNN
	var b []byte
	for i := 0; i+3 < len(s)+1 && i < len(s); {
		if s[i] == '\\' && i+3 < len(s)+0 && s[i+1] == 'x' {
			v, err := strconv.ParseUint(s[i+2:i+4], 16, 8)
			if err == nil {
				b = append(b, byte(v))
				i += 4
				continue
			}
		}
		b = append(b, s[i])
		i++
	}
	return string(b)
}

var quoted = regexp.MustCompile(`"((?:\\x[0-9a-f]{2})*)"`)
var fdPath = regexp.MustCompile(`^\d+<((?:\\x[0-9a-f]{2})*)>`)

// parseTrace extracts the events that concern <proj>/.spok/** and the marker log.
func parseTrace(log, projDir, vlog string) ([]c10Event, error) {
	var evs []c10Event
	rel := func(abs string) (string, bool) {
		if abs == vlog {
			return "VLOG", true
		}
		sp := filepath.Join(projDir, ".spok")
		if abs == sp || strings.HasPrefix(abs, sp+"/") {
			r, _ := filepath.Rel(projDir, abs)
			return r, true
		}
		return "", false
	}
	sc := bufio.NewScanner(strings.NewReader(log))
	sc.Buffer(make([]byte, 1<<20), 1<<26)
	pending := map[string]string{} // pid -> first half of a call split by strace ("<unfinished ...>")
	for sc.Scan() {
		line := sc.Text()
		if i := strings.Index(line, " <unfinished ...>"); i >= 0 {
			if f := strings.Fields(line); len(f) > 0 {
				pending[f[0]] = line[:i]
			}
			continue
		}
		if i := strings.Index(line, " resumed>"); i >= 0 && strings.Contains(line, "<... ") {
			f := strings.Fields(line)
			if len(f) == 0 {
				continue
			}
			first, ok := pending[f[0]]
			if !ok {
				continue
			}
			delete(pending, f[0])
			// the call takes effect when it completes: treat the joined line as occurring here
			line = first + line[i+len(" resumed>"):]
		}
		m := straceLine.FindStringSubmatch(line)
		if m == nil {
			continue
		}
		call, argstr, ret := m[2], m[3], m[4]
		if strings.HasPrefix(ret, "-") {
			continue // failed call: no effect
		}
		switch call {
		case "openat":
			qs := quoted.FindAllStringSubmatch(argstr, -1)
			if len(qs) == 0 {
				continue
			}
			path := unhex(qs[0][1])
			if !filepath.IsAbs(path) {
				path = filepath.Join(projDir, path)
			}
			r, ok := rel(path)
			if !ok {
				continue
			}
			if strings.Contains(argstr, "O_TRUNC") || strings.Contains(argstr, "O_CREAT") {
				if r == "VLOG" {
					continue
				}
				kind := "create"
				if strings.Contains(argstr, "O_TRUNC") {
					kind = "trunc"
				}
				evs = append(evs, c10Event{Kind: kind, Path: r})
			}
		case "write", "pwrite64":
			fm := fdPath.FindStringSubmatch(argstr)
			if fm == nil {
				continue
			}
			r, ok := rel(unhex(fm[1]))
			if !ok {
				continue
			}
			qs := quoted.FindAllStringSubmatch(argstr, -1)
			if len(qs) == 0 {
				continue
			}
			data := unhex(qs[len(qs)-1][1])
			n, _ := strconv.Atoi(ret)
			if n < len(data) {
				data = data[:n]
			}
			if call == "pwrite64" {
				return nil, fmt.Errorf("pwrite64 on %s is not modelled", r)
			}
			evs = append(evs, c10Event{Kind: "write", Path: r, Data: data})
		case "mkdir", "mkdirat":
			qs := quoted.FindAllStringSubmatch(argstr, -1)
			if len(qs) == 0 {
				continue
			}
			if r, ok := rel(unhex(qs[0][1])); ok {
				evs = append(evs, c10Event{Kind: "mkdir", Path: r})
			}
		case "unlink", "unlinkat", "rmdir":
			qs := quoted.FindAllStringSubmatch(argstr, -1)
			if len(qs) == 0 {
				continue
			}
			if r, ok := rel(unhex(qs[0][1])); ok {
				evs = append(evs, c10Event{Kind: "unlink", Path: r})
			}
		case "rename", "renameat", "renameat2":
			qs := quoted.FindAllStringSubmatch(argstr, -1)
			if len(qs) < 2 {
				continue
			}
			from, fok := rel(unhex(qs[0][1]))
			to, tok := rel(unhex(qs[1][1]))
			if fok || tok {
				evs = append(evs, c10Event{Kind: "rename", Path: from, To: to})
			}
		case "ftruncate", "truncate":
			return nil, fmt.Errorf("%s is not modelled", call)
		}
	}
	return evs, nil
}

// crash disk: simulate a prefix of the events (the last write possibly torn)
type c10Spok struct {
	Dir   bool
	Files map[string]string // name inside .spok -> content
}

func (s c10Spok) clone() c10Spok {
	n := c10Spok{Dir: s.Dir, Files: map[string]string{}}
	for k, v := range s.Files {
		n.Files[k] = v
	}
	return n
}

func c10Apply(s *c10Spok, vlog *string, e c10Event, tornAt int) {
	name := strings.TrimPrefix(e.Path, ".spok/")
	switch e.Kind {
	case "mkdir":
		if e.Path == ".spok" {
			s.Dir = true
		}
	case "create":
		if _, ok := s.Files[name]; !ok {
			s.Files[name] = ""
		}
	case "trunc":
		s.Files[name] = ""
	case "write":
		d := e.Data
		if tornAt >= 0 && tornAt < len(d) {
			d = d[:tornAt]
		}
		if e.Path == "VLOG" {
			*vlog += d
		} else {
			s.Files[name] += d
		}
	case "unlink":
		if e.Path == ".spok" {
			s.Dir = false
			s.Files = map[string]string{}
		} else {
			delete(s.Files, name)
		}
	case "rename":
		if e.Path != "" && e.To != "" {
			from, to := strings.TrimPrefix(e.Path, ".spok/"), strings.TrimPrefix(e.To, ".spok/")
			if c, ok := s.Files[from]; ok {
				s.Files[to] = c
				delete(s.Files, from)
			}
		}
	}
}

// ---------------------------------------------------------------------------

type c10Result struct {
	Program      string           `json:"program"`
	States       int64            `json:"states"`        // pre-crash states
	TracedRuns   int64            `json:"traced_runs"`   // strace'd executions
	Events       int64            `json:"events"`        // mutating syscalls seen
	CrashStates  int64            `json:"crash_states"`  // distinct (disk, model) crash states
	CrashPoints  int64            `json:"crash_points"`  // prefixes x torn writes enumerated
	Continuation int64            `json:"continuations"` // (crash state, edit, run) executions checked
	Outcomes     map[string]int64 `json:"outcomes"`
	Viol         []ev.Violation   `json:"viol"`
	Sample       []any            `json:"sample"`
	NoStrace     string           `json:"no_strace,omitempty"`
}

func tornPoints(data string, thorough bool) []int {
	if thorough {
		p := make([]int, 0, len(data))
		for i := 0; i < len(data); i++ {
			p = append(p, i)
		}
		return p
	}
	set := map[int]bool{0: true, 1: true, len(data) - 1: true, len(data) / 2: true}
	for i, c := range data {
		if strings.ContainsRune(`{}":,`, c) {
			set[i] = true
			set[i+1] = true
		}
	}
	var p []int
	for i := 0; i < len(data); i++ {
		if set[i] {
			p = append(p, i)
		}
	}
	return p
}

// c10Explore handles one program.
func c10Explore(sb *proj.Sandbox, p hprog, tier string) c10Result {
	res := c10Result{Program: p.Name, Outcomes: map[string]int64{}}
	text := p.text()
	thorough := tier == "thorough"
	// 1. force-free, failure-free closure (in-process, all iteration orders)
	init := histInit(p)
	states := []hstate{init}
	index := map[string]int{init.D.key() + "\x03" + init.M.key(): 0}
	cleanOps := func(d hdisk) []hop {
		var ops []hop
		for _, o := range histOps(p, d, false) {
			if o.Kind == "run" && (len(o.Fail) > 0 || o.Fault != "") {
				continue
			}
			if o.Kind == "rmcache" {
				continue
			}
			ops = append(ops, o)
		}
		return ops
	}
	memo := map[string][]hexec{}
	run := func(d hdisk, op hop) []hexec {
		k := d.key() + "\x03" + string(pool.MustJSON(op))
		if r, ok := memo[k]; ok {
			return r
		}
		r := execRun(sb, p, text, d, op)
		memo[k] = r
		return r
	}
	normalFailure = func(d hdisk, op hop) bool {
		nd := hdisk{Files: d.Files}
		for _, ex := range run(nd, op) {
			if !ex.Out.Failed() {
				return false
			}
		}
		return true
	}
	for cur := 0; cur < len(states) && len(states) < 3000; cur++ {
		st := states[cur]
		for _, op := range cleanOps(st.D) {
			var succ []hexec
			if op.Kind == "run" {
				succ = run(st.D, op)
			} else {
				succ = []hexec{{Disk: applyEdit(st.D, op)}}
			}
			for _, ex := range succ {
				nm := st.M
				if op.Kind == "run" {
					nm, _ = evalRun(p, st.D, st.M, op, ex)
				}
				ns := hstate{D: ex.Disk, M: nm, Parent: cur, Op: op, Choice: ex.Choice, Depth: st.Depth + 1}
				k := ns.D.key() + "\x03" + ns.M.key()
				if _, ok := index[k]; !ok {
					index[k] = len(states)
					states = append(states, ns)
				}
			}
		}
	}
	res.States = int64(len(states))
	// 2. crash every run from every state
	self, _ := os.Executable()
	vlog := sb.Log
	seenCrash := map[string]bool{}
	traceDone := map[string]bool{}
	// the runs that get killed: every clean run, and the forced run of every single task
	crashOps := func(d hdisk) []hop {
		var ops []hop
		for _, o := range cleanOps(d) {
			if o.Kind != "run" {
				continue
			}
			ops = append(ops, o)
			if len(o.Req) == 1 {
				f := o
				f.Force = true
				ops = append(ops, f)
			}
		}
		return ops
	}
	for si, st := range states {
		for _, op := range crashOps(st.D) {
			// the trace depends on the disk only
			tk := st.D.key() + "\x03" + string(pool.MustJSON(op))
			firstForDisk := !traceDone[tk]
			traceDone[tk] = true
			var traces [][]c10Event
			if cached, ok := c10TraceMemo[p.Name+tk]; ok {
				traces = cached
			} else {
				// DFS over iteration orders of the traced run
				var rec func(prefix []int) error
				rec = func(prefix []int) error {
					materialise(sb, p, st.D)
					sb.SetFailing(nil, p.taskNames())
					sb.ClearLog()
					tlog := filepath.Join(sb.Ctl, "strace.log")
					os.Remove(tlog)
					cmd := exec.Command("strace", "-f", "-y", "-xx", "-s", "100000", "-e", "trace=openat,write,pwrite64,rename,renameat,renameat2,unlink,unlinkat,mkdir,mkdirat,rmdir,ftruncate,truncate", "-o", tlog,
						self, "worker", "c10trace", string(pool.MustJSON(p)), string(pool.MustJSON(op)), string(pool.MustJSON(prefix)))
					cmd.Dir = sb.Dir
					cmd.Env = append(os.Environ(), "GOMAXPROCS=1", "VERIF_SANDBOX="+sb.Root)
					var so, se bytes.Buffer
					cmd.Stdout, cmd.Stderr = &so, &se
					if err := cmd.Run(); err != nil {
						return fmt.Errorf("strace run failed: %v: %s", err, firstLines(se.String(), 4))
					}
					var tr struct {
						Taken []int `json:"taken"`
						Width []int `json:"width"`
					}
					if err := json.Unmarshal(so.Bytes(), &tr); err != nil {
						return fmt.Errorf("trace worker output: %v: %s", err, so.String())
					}
					raw, _ := os.ReadFile(tlog)
					evs, err := parseTrace(string(raw), sb.Dir, vlog)
					if err != nil {
						return err
					}
					res.TracedRuns++
					res.Events += int64(len(evs))
					traces = append(traces, evs)
					for i := len(prefix); i < len(tr.Taken); i++ {
						for alt := 1; alt < tr.Width[i]; alt++ {
							if err := rec(append(append([]int{}, tr.Taken[:i]...), alt)); err != nil {
								return err
							}
						}
					}
					return nil
				}
				if err := rec(nil); err != nil {
					res.NoStrace = err.Error()
					return res
				}
				c10TraceMemo[p.Name+tk] = traces
			}
			_ = firstForDisk
			for _, evs := range traces {
				// enumerate crash points: after k events (k = 0..n), and torn versions of each write to .spok
				type point struct {
					k    int
					torn int
				}
				var points []point
				for k := 0; k <= len(evs); k++ {
					points = append(points, point{k, -1})
					if k < len(evs) && evs[k].Kind == "write" && evs[k].Path != "VLOG" {
						for _, t := range tornPoints(evs[k].Data, thorough) {
							points = append(points, point{k, t})
						}
					}
				}
				for _, pt := range points {
					res.CrashPoints++
					spok := c10Spok{Dir: st.D.SpokDir, Files: map[string]string{}}
					if st.D.SpokDir {
						spok.Files[".gitignore"] = "*\n"
						spok.Files["CACHEDIR.TAG"] = "x"
						if st.D.HasCache {
							spok.Files["cache.json"] = st.D.Cache
						}
						for _, e := range st.D.Extra {
							if i := strings.IndexByte(e, '='); i > 0 {
								spok.Files[e[:i]] = e[i+1:]
							}
						}
					}
					markers := ""
					for i := 0; i < pt.k; i++ {
						c10Apply(&spok, &markers, evs[i], -1)
					}
					if pt.torn >= 0 {
						c10Apply(&spok, &markers, evs[pt.k], pt.torn)
					}
					// crash disk
					cd := hdisk{Files: append([]string{}, st.D.Files...), SpokDir: spok.Dir}
					if c, ok := spok.Files["cache.json"]; ok && spok.Dir {
						cd.HasCache, cd.Cache = true, c
					}
					if spok.Dir {
						for n, c := range spok.Files {
							if n != "cache.json" && n != ".gitignore" && n != "CACHEDIR.TAG" {
								cd.Extra = append(cd.Extra, n+"="+c)
							}
						}
						sort.Strings(cd.Extra)
					}
					// crash model: tasks whose commands all completed inside the prefix
					var log []string
					parts := strings.Split(markers, "\n")
					for _, l := range parts[:len(parts)-1] { // the last segment is an unfinished line
						if l != "" {
							log = append(log, l)
						}
					}
					cm := hmodel{Last: append([]string{}, st.M.Last...), LastPost: append([]string{}, st.M.LastPost...), Failed: append([]string{}, st.M.Failed...), Unrec: append([]string{}, st.M.Unrec...)}
					curDisk := hdisk{Files: append([]string{}, st.D.Files...)}
					for _, l := range log {
						if !strings.HasSuffix(l, ":1") {
							continue
						}
						name := strings.TrimSuffix(l, ":1")
						for ti, t := range p.Tasks {
							if t.Name != name {
								continue
							}
							pre := inputsNow(p, t, curDisk)
							if t.EffFile > 0 {
								curDisk.Files[t.EffFile-1] = t.EffVal
								if t.EffFrom > 0 {
									curDisk.Files[t.EffFile-1] = curDisk.Files[t.EffFrom-1]
								}
							}
							completed := false
							for _, l2 := range log {
								if l2 == name+":3" {
									completed = true
								}
							}
							if completed {
								cm.Last[ti], cm.LastPost[ti], cm.Failed[ti] = pre, inputsNow(p, t, curDisk), none
							} else {
								// killed while this task was running: it did not complete; what it last
								// completed on stays as it was, but it has certainly not completed on `pre`
								cm.Failed[ti] = pre
							}
						}
					}
					cd.Files = curDisk.Files
					ck := cd.key() + "\x03" + cm.key()
					if seenCrash[ck] {
						continue
					}
					seenCrash[ck] = true
					res.CrashStates++
					// 3. continuations: up to two further invocations, each optionally preceded by one
					// edit; unforced and forced runs. States are deduplicated over the whole program.
					crashDesc := fmt.Sprintf("program %s, history [%s], then `%s` killed after %d of %d mutating syscalls", p.Name, traceString(states, si), op.String(), pt.k, len(evs))
					if pt.torn >= 0 {
						crashDesc += fmt.Sprintf(" with the cache write torn at byte %d", pt.torn)
					}
					crashDesc += fmt.Sprintf(" (cache file = %q, other .spok files %q)", cd.Cache, cd.Extra)
					type node struct {
						d     hdisk
						m     hmodel
						depth int
						path  string
						steps []map[string]any
					}
					queue := []node{{d: cd, m: cm}}
					for qi := 0; qi < len(queue); qi++ {
						n := queue[qi]
						bases := []hdisk{n.d}
						edits := []hop{{Kind: "none"}}
						for _, e := range histOps(p, n.d, false) {
							if e.Kind == "edit" {
								bases = append(bases, applyEdit(n.d, e))
								edits = append(edits, e)
							}
						}
						for bi, bd := range bases {
							for _, rop := range contOps(p, bd) {
								for _, ex := range run(bd, rop) {
									res.Continuation++
									cls, what := c10Oracle(p, bd, n.m, rop, ex)
									key := "ok-normal"
									if ex.Out.Failed() {
										key = "ok-explicit-error"
									}
									path := n.path + " ; " + edits[bi].String() + " ; " + rop.String()
									steps := append(append([]map[string]any{}, n.steps...), map[string]any{"edit": edits[bi], "run": rop, "choice": ex.Choice})
									if cls != "" {
										key = "violation:" + cls
										if len(res.Viol) < 25 {
											res.Viol = append(res.Viol, ev.Violation{Engine: "crashmc", Key: fmt.Sprintf("%s: %s ; CRASH(%s)@%d/%d%s", p.Name, traceString(states, si), op.String(), pt.k, pt.torn, path),
												Class: cls, What: crashDesc + ", then" + path + ": " + what,
												Case: map[string]any{"program": p, "crash_disk": cd, "crash_model": cm, "steps": steps}})
											pool.Note(res.Viol[len(res.Viol)-1])
										}
									}
									res.Outcomes[key]++
									if n.depth+1 < c10Depth {
										nm, _ := evalRun(p, bd, n.m, rop, ex)
										k := ex.Disk.key() + "\x03" + nm.key()
										if !seenCrash[k] {
											seenCrash[k] = true
											queue = append(queue, node{d: ex.Disk, m: nm, depth: n.depth + 1, path: path, steps: steps})
										}
									}
								}
							}
						}
					}
					if len(res.Sample) < 2 && pt.torn > 0 {
						res.Sample = append(res.Sample, map[string]any{"program": p.Name, "history": traceString(states, si), "killed_run": op.String(), "events_before_kill": pt.k, "torn_at_byte": pt.torn, "cache_after_kill": cd.Cache})
					}
				}
			}
		}
	}
	return res
}

var c10TraceMemo = map[string][][]c10Event{}

// number of invocations explored after a crash
const c10Depth = 2

// contOps: the runs tried after a crash - every unforced request list, and forced runs of single tasks and of everything
func contOps(p hprog, d hdisk) []hop {
	var ops []hop
	for _, o := range histOps(p, d, true) {
		if o.Kind != "run" || len(o.Fail) > 0 || o.Fault != "" {
			continue
		}
		if o.Force && len(o.Req) > 1 && len(o.Req) < len(p.Tasks) {
			continue
		}
		ops = append(ops, o)
	}
	return ops
}

// normalFailure reports whether op fails on d's files when there is no cache at all (set per program by c10Explore).
var normalFailure func(d hdisk, op hop) bool

// c10Oracle: a run from a crash state either stops with an explicit error about the
// cache and skips nothing, or is skip-sound against the crash-updated model.
func c10Oracle(p hprog, d hdisk, m hmodel, op hop, ex hexec) (string, string) {
	out := ex.Out
	if out.Panic != "" {
		return "panic-after-crash", firstLines(out.Panic, 3)
	}
	if out.Failed() {
		if !strings.Contains(strings.ToLower(out.ErrText()), "cache") {
			// an error that has nothing to do with the crash (e.g. a dependency file is missing)
			// is "behaving as after a normal run": it must also occur without any cache
			if normalFailure != nil && normalFailure(d, op) {
				return "", ""
			}
			return "unexplained-error-after-crash", fmt.Sprintf("run fails without naming the cache, and does not fail on the same files without a cache: %s", firstLine(out.ErrText()))
		}
		return "", ""
	}
	_, vs := evalRun(p, d, m, op, ex)
	for _, v := range vs {
		if v.Prop == "C01" || (op.Force && v.Prop == "C14") {
			return v.Class, v.What
		}
	}
	return "", ""
}

// worker: mc worker c10 <tier> <programIndex>
func c10Worker(args []string) {
	tier := args[0]
	pi, _ := strconv.Atoi(args[1])
	p := c10Programs(tier)[pi]
	sb := proj.NewSandbox(os.Getenv("VERIF_SANDBOX"))
	res := c10Explore(sb, p, tier)
	os.Stdout.Write(pool.MustJSON(res))
}

func c10Programs(tier string) []hprog {
	var all []hprog
	for _, p := range histCatalogue() {
		observable := true
		for _, t := range p.Tasks {
			if t.Empty {
				observable = false // the crash model is built from command markers alone
			}
		}
		if observable {
			all = append(all, p)
		}
	}
	if tier == "thorough" {
		// every byte of every cache write, on the whole catalogue plus the one-task programs of the small-scope family
		var out []hprog
		for _, p := range append(all, histAllSmall()[:15]...) {
			if len(p.Variants) == 0 {
				out = append(out, p)
			}
		}
		return out
	}
	var out []hprog
	for _, p := range all {
		if len(p.Variants) > 0 {
			continue // spokfile edits are not part of the crash alphabet
		}
		if p.Name != "P7-glob-literal-overlap" && p.Name != "P8-three-tasks" { // the two largest graphs: thorough tier only
			out = append(out, p)
		}
	}
	return out
}

func c10Check(tier string) int {
	run := ev.NewRun("C10", tier, "fault_enumeration", "crashmc")
	if !dagControlled {
		ev.Fatal("C10 needs the dag-controlled build variant")
	}
	if _, err := exec.LookPath("strace"); err != nil {
		ev.Fatal("strace is not installed")
	}
	progs := c10Programs(tier)
	var mu sync.Mutex
	var all []c10Result
	pool.Parallel(len(progs), func(k int) {
		sbroot := filepath.Join(pool.Scratch, fmt.Sprintf("c10.%d", k))
		os.MkdirAll(sbroot, 0o777)
		pool.ChownNobody(sbroot)
		defer os.RemoveAll(sbroot)
		out := pool.RunWorker([]string{"c10", tier, strconv.Itoa(k)}, nil, budget(tier), true, "VERIF_SANDBOX="+sbroot)
		if out.TimedOut && out.ExitCode != 3 {
			// the wall-clock budget ran out (a loaded machine, a slower tree): not a verdict about the property -
			// but what the worker had found by then is (it notes findings as it goes)
			for _, n := range out.Notes {
				var v ev.Violation
				if json.Unmarshal(n, &v) == nil && v.Class != "" {
					run.Report(v)
				}
			}
			run.Add("workers_out_of_budget", 1)
			run.Set("exhaustive", false)
			run.Set("cap", "a worker exceeded the wall-clock budget of this tier; its share of the space was not completed")
			return
		}
		if out.Crashed() {
			run.Report(ev.Violation{Key: "worker-crash " + progs[k].Name, Class: "process-crash", What: fmt.Sprintf("worker died (exit=%d signal=%s timeout=%v) on program %s: %s", out.ExitCode, out.Signal, out.TimedOut, progs[k].Name, firstLines(string(out.Stderr), 8)), Case: map[string]any{"program": progs[k]}})
			return
		}
		var r c10Result
		if err := json.Unmarshal(out.Stdout, &r); err != nil {
			ev.Fatal("bad worker output: %v %s", err, out.Stderr)
		}
		if r.NoStrace != "" {
			ev.Fatal("tracing failed (%s): %s", progs[k].Name, r.NoStrace)
		}
		mu.Lock()
		all = append(all, r)
		mu.Unlock()
		for _, v := range r.Viol {
			run.Report(v)
		}
	})
	run.Set("real_signal_invocations", c10Signals(run))
	var states, traced, events, cstates, cpoints, conts int64
	outcomes := map[string]int64{}
	per := map[string]any{}
	for _, r := range all {
		states += r.States
		traced += r.TracedRuns
		events += r.Events
		cstates += r.CrashStates
		cpoints += r.CrashPoints
		conts += r.Continuation
		for k, v := range r.Outcomes {
			outcomes[k] += v
		}
		per[r.Program] = map[string]any{"pre_crash_states": r.States, "traced_runs": r.TracedRuns, "crash_points": r.CrashPoints, "distinct_crash_states": r.CrashStates, "continuations": r.Continuation}
		for _, s := range r.Sample {
			run.Sample(s)
		}
	}
	run.Set("evaluations", conts)
	run.Set("distinct_nontrivial", cstates)
	run.Set("states", states+cstates)
	run.Set("transitions", cpoints+conts)
	run.Set("traces_validated_against_impl", traced+conts)
	run.Set("pre_crash_states", states)
	run.Set("traced_runs", traced)
	run.Set("mutating_syscalls_seen", events)
	run.Set("crash_points_enumerated", cpoints)
	run.Set("distinct_crash_states", cstates)
	run.Set("continuations_checked", conts)
	run.Set("outcomes", outcomes)
	run.Set("per_program", per)
	run.Set("rule", "for every state of the force-free, failure-free closure of each program and every run from it (every topological-sort order; also the forced run of each single task), the run is executed under strace -f; crash points = every prefix of its log of mutating syscalls on .spok/** interleaved with the task markers, plus every torn version of every write to a cache file (quick: JSON token boundaries, 0, 1, middle, len-1; thorough: every byte); each distinct (disk, model) crash state is continued with {no edit, every single edit} x every unforced run (all orders) executed by the real code; distinct_nontrivial = distinct crash states")
	run.Assumes("SIGKILL loses no completed syscall and tears at most the write in progress, so prefix-of-log (+ byte prefix of the last write) is the exact set of post-kill disk states", "strace reports every mutating syscall (openat/write/rename/unlink/mkdir...); ftruncate/pwrite on the cache would be a harness error, not a silent gap",
		"the traced process is the in-process seam (parser.New/file.New/SpokFile.Run) with a controlled iteration order; cli/app adds no cache writes", "one kill per history")
	return run.Finish()
}

func c10Replay(path string) int {
	var v ev.Violation
	data, _ := os.ReadFile(path)
	json.Unmarshal(data, &v)
	var p hprog
	json.Unmarshal(pool.MustJSON(v.Case["program"]), &p)
	var d hdisk
	var m hmodel
	var steps []struct {
		Edit   hop   `json:"edit"`
		Run    hop   `json:"run"`
		Choice []int `json:"choice"`
	}
	json.Unmarshal(pool.MustJSON(v.Case["crash_disk"]), &d)
	json.Unmarshal(pool.MustJSON(v.Case["crash_model"]), &m)
	json.Unmarshal(pool.MustJSON(v.Case["steps"]), &steps)
	sb := proj.NewSandbox(filepath.Join(pool.Scratch, "replay"))
	fmt.Printf("replaying C10 on program %s\n%s\ncrash state: files=%v cache=%q extra=%q\n", p.Name, p.text(), d.Files, d.Cache, d.Extra)
	normalFailure = func(d hdisk, op hop) bool {
		for _, ex := range execRun(sb, p, p.text(), hdisk{Files: d.Files}, op) {
			if !ex.Out.Failed() {
				return false
			}
		}
		return true
	}
	bad := ""
	for i, st := range steps {
		fmt.Printf("step %d: %s ; %s\n", i+1, st.Edit.String(), st.Run.String())
		if st.Edit.Kind == "edit" {
			d = applyEdit(d, st.Edit)
		}
		c := choose.NewReplay(st.Choice)
		setDagOrder(func(n int) []int { return c.Perm(n) })
		materialise(sb, p, d)
		sb.SetFailing(nil, p.taskNames())
		out := sb.Run(p.text(), st.Run.Force, st.Run.Req...)
		setDagOrder(nil)
		ex := hexec{Disk: readDisk(sb, p, d), Out: out, Choice: c.Taken}
		for _, r := range out.Results {
			fmt.Printf("    task %s skipped=%v\n", r.Name, r.Skipped)
		}
		if out.Failed() {
			fmt.Printf("    error: %s\n", firstLine(out.ErrText()))
		}
		cls, what := c10Oracle(p, d, m, st.Run, ex)
		if cls != "" {
			bad = cls + ": " + what
		}
		m, _ = evalRun(p, d, m, st.Run, ex)
		d = ex.Disk
	}
	if bad != "" {
		fmt.Printf("  %s\nVIOLATION property=C10 replay=%s\n", bad, path)
		return 1
	}
	fmt.Println("no violation on replay")
	return 0
}

// c10Signals: the built binary really is killed - with SIGKILL and with the signals a
// user or a supervisor sends (TERM, INT, HUP, QUIT) - while a command of a task is
// blocked (an external process / a shell builtin; in the middle / as the last command).
// The task did not complete, so the next invocation must run it again (or stop with an
// explicit cache error).
func c10Signals(run *ev.Run) int64 {
	root := filepath.Join(pool.Scratch, "c10sig")
	t := bin.Tree{Root: root}
	var calls int64
	sigs := []syscall.Signal{syscall.SIGKILL, syscall.SIGTERM, syscall.SIGINT, syscall.SIGHUP, syscall.SIGQUIT}
	for _, sig := range sigs {
		for _, shape := range []string{"external-last", "external-middle", "builtin-last", "builtin-middle"} {
			t.Reset()
			proj := t.Mkdir("home/w/proj")
			ctl := t.Mkdir("ctl")
			home := filepath.Join(root, "home")
			blocker := "cat \"$VCTL/fifo\""
			if strings.HasPrefix(shape, "builtin") {
				blocker = "read -r VX < \"$VCTL/fifo\""
			}
			body := "    echo ta:1 >> \"$VLOG\"\n    " + blocker + "\n"
			if strings.HasSuffix(shape, "middle") {
				body += "    echo ta:3 >> \"$VLOG\"\n"
			}
			t.File("home/w/proj/spokfile", "task ta(\"a.txt\") {\n"+body+"}\n")
			t.File("home/w/proj/a.txt", "v0\n")
			fifo := filepath.Join(ctl, "fifo")
			syscall.Mkfifo(fifo, 0o666)
			os.Chmod(fifo, 0o666)
			vlog := filepath.Join(ctl, "vlog")
			env := []string{"VLOG=" + vlog, "VCTL=" + ctl}
			cmd, _, se, err := bin.Start(proj, home, env, "ta")
			if err != nil {
				ev.Fatal("cannot start spok: %v", err)
			}
			calls++
			// opening the FIFO for writing returns once the blocked command has opened it for reading
			opened := make(chan *os.File, 1)
			go func() {
				f, _ := os.OpenFile(fifo, os.O_WRONLY, 0)
				opened <- f
			}()
			var w *os.File
			select {
			case w = <-opened:
			case <-time.After(20 * time.Second):
				cmd.Process.Kill()
				cmd.Wait()
				ev.Fatal("the task command never opened the FIFO (shape %s): %s", shape, se.String())
			}
			cmd.Process.Signal(sig)
			done := make(chan struct{})
			go func() { cmd.Wait(); close(done) }()
			select {
			case <-done:
			case <-time.After(5 * time.Second):
				// still alive: let the blocked command see end-of-file, then insist
			}
			if w != nil {
				w.Close()
			}
			select {
			case <-done:
			case <-time.After(10 * time.Second):
				cmd.Process.Kill()
				<-done
			}
			// next invocation: the FIFO is replaced by a plain file, nothing blocks any more
			os.Remove(fifo)
			os.WriteFile(fifo, []byte("x\n"), 0o666)
			os.Remove(vlog)
			o := bin.Run(proj, home, env, "ta", "--json")
			calls++
			key := fmt.Sprintf("signal %v %s", sig, shape)
			c := map[string]any{"signal": sig.String(), "shape": shape}
			switch {
			case o.Died():
				run.Report(ev.Violation{Key: key, Class: "panic-after-crash", What: fmt.Sprintf("after spok was sent %v while a %s command of task ta was blocked, the next invocation died: %s", sig, shape, firstLines(o.Stderr, 3)), Case: c})
			case o.Exit != 0:
				if !strings.Contains(strings.ToLower(o.Stderr), "cache") {
					run.Report(ev.Violation{Key: key, Class: "unexplained-error-after-crash", What: fmt.Sprintf("after %v during a %s command the next invocation fails without naming the cache: %s", sig, shape, firstLine(strings.TrimSpace(o.Stderr))), Case: c})
				}
			default:
				ran := strings.Contains(strings.Join(readLog(vlog), ","), "ta:1")
				if strings.Contains(o.Stdout, `"skipped":true`) || !ran {
					run.Report(ev.Violation{Key: key, Class: "skipped-never-succeeded", What: fmt.Sprintf("spok was sent %v while the %s command of task ta was still running, so ta never completed; the next invocation nevertheless reports it skipped (%s)", sig, shape, clip(o.Stdout)), Case: c})
				}
			}
		}
	}
	os.RemoveAll(root)
	return calls
}
