package main

import (
	"encoding/json"
	"fmt"
	"os"
	"path/filepath"
	"runtime"
	"sort"
	"strconv"
	"strings"
	"sync"
	"time"

	"github.com/FollowTheProcess/spok/parser"

	"verifharness/internal/bin"
	"verifharness/internal/ev"
	"verifharness/internal/lang"
	"verifharness/internal/pool"
)

var repoDir = func() string {
	if r := os.Getenv("REPO"); r != "" {
		return r
	}
	return "/repo"
}()

func init() {
	for _, p := range []string{"C06", "C07", "C08", "C11", "C15", "C16"} {
		p := p
		checks[p] = func(tier string) int { return langCheck(p, tier) }
	}
	workers["lang"] = langWorker
	replays["langmc"] = langReplay
	replays["langmc-c07bin"] = fmtBinaryReplay
}

type langShardResult struct {
	Inputs     int64            `json:"inputs"`
	Parsed     int64            `json:"parsed"`
	Nontrivial int64            `json:"nontrivial"`
	Distinct   int64            `json:"distinct"`
	Outcomes   map[string]int64 `json:"outcomes"`
	Tokens     int64            `json:"tokens"`
	Viol       []langViol       `json:"viol"`
	Samples    []string         `json:"samples"`
}

type langViol struct {
	Input string `json:"input"`
	Class string `json:"class"`
	What  string `json:"what"`
	Space string `json:"space"`
}

// evalLang runs the oracle of prop on one input.
func evalLang(prop string, in lang.Input, res *langShardResult) *lang.Verdict {
	switch prop {
	case "C16":
		v, ntok, clean := lang.CheckC16(in.Text)
		res.Tokens += int64(ntok)
		if clean {
			res.Parsed++
		}
		if ntok > 1 {
			res.Nontrivial++
		}
		return v
	case "C08":
		v, ok := lang.CheckC08(in.Text)
		if ok {
			res.Parsed++
		}
		res.Nontrivial++ // every input has an outcome to check: tree or located error
		return v
	case "C06":
		if in.File == nil || !in.Admissible {
			return nil
		}
		res.Nontrivial++
		v := lang.CheckC06(in.File, in.Text)
		if v == nil {
			res.Parsed++
		}
		return v
	case "C07", "C11", "C15":
		r := lang.RoundTrip(in.Text)
		if !r.Parsed {
			return nil
		}
		res.Parsed++
		if len(r.T1.Nodes) > 0 {
			res.Nontrivial++
		}
		switch prop {
		case "C07":
			return lang.CheckC07(r)
		case "C11":
			return lang.CheckC11(r)
		default:
			return lang.CheckC15(r)
		}
	}
	return nil
}

// worker: mc worker lang <prop> <tier> <spaceIdx> <lo> <loOrd> <hi> <hiOrd>
// covers items lo..hi-1 (skipping the first loOrd inputs of item lo) plus the first
// hiOrd inputs of item hi.
func langWorker(args []string) {
	prop, tier := args[0], args[1]
	si, _ := strconv.Atoi(args[2])
	lo, _ := strconv.ParseInt(args[3], 10, 64)
	loOrd, _ := strconv.ParseInt(args[4], 10, 64)
	hi, _ := strconv.ParseInt(args[5], 10, 64)
	hiOrd, _ := strconv.ParseInt(args[6], 10, 64)
	sp := lang.Spaces(tier, prop == "C06", repoDir)[si]
	prog := pool.OpenProgress()
	prog.Watchdog(25 * time.Second)
	res := langShardResult{Outcomes: map[string]int64{}}
	last := hi
	if hiOrd == 0 {
		last = hi - 1
	}
	_, isSigma := sp.(lang.SigmaSpace)
	_, isStruct := sp.(lang.StructSpace)
	for i := lo; i <= last; i++ {
		var ord int64
		seen := map[string]bool{}
		sp.Gen(i, func(in lang.Input) {
			ord++
			if i == lo && ord <= loOrd {
				return
			}
			if i == hi && ord > hiOrd {
				return
			}
			prog.Announce(i, ord)
			res.Inputs++
			before, ntBefore := res.Parsed, res.Nontrivial
			v := evalLang(prop, in, &res)
			// the lexer goroutine of this input may still be runnable (the parser stopped reading after an
			// error of its own): let it run to its next blocking point NOW, so that a crash in it is
			// attributed to this input and not to a later one (workers run with GOMAXPROCS=1)
			runtime.Gosched()
			runtime.Gosched()
			if res.Nontrivial > ntBefore {
				// distinct count, conservative: sigma strings are distinct by construction;
				// structure renderings longer than any sigma string, deduplicated per structure
				if isSigma || (isStruct && len(in.Text) > 24 && !seen[in.Text]) {
					res.Distinct++
					if isStruct {
						seen[in.Text] = true
					}
				}
			}
			if v != nil {
				res.Outcomes["violation:"+v.Class]++
				if len(res.Viol) < 200 {
					res.Viol = append(res.Viol, langViol{Input: in.Text, Class: v.Class, What: v.What, Space: sp.Name()})
				}
			} else if res.Parsed > before {
				res.Outcomes["ok-parsed"]++
			} else {
				res.Outcomes["ok-rejected"]++
			}
			if len(res.Samples) < 2 && res.Parsed > before && len(in.Text) > 8 {
				res.Samples = append(res.Samples, in.Text)
			}
		})
	}
	os.Stdout.Write(pool.MustJSON(res))
}

// nthInput regenerates the ord-th input of item i.
func nthInput(sp lang.Space, i, ord int64) (string, bool) {
	var n int64
	var out string
	found := false
	sp.Gen(i, func(in lang.Input) {
		n++
		if n == ord {
			out, found = in.Text, true
		}
	})
	return out, found
}

func langCheck(prop, tier string) int {
	run := ev.NewRun(prop, tier, "model_checking", "langmc")
	spaces := lang.Spaces(tier, prop == "C06", repoDir)
	type shard struct {
		si     int
		lo, hi int64
	}
	var shards []shard
	for si, sp := range spaces {
		n := sp.Count()
		per := (n + 255) / 256
		if per < 1 {
			per = 1
		}
		for lo := int64(0); lo < n; lo += per {
			hi := lo + per
			if hi > n {
				hi = n
			}
			shards = append(shards, shard{si, lo, hi})
		}
	}
	var mu sync.Mutex
	total := langShardResult{Outcomes: map[string]int64{}}
	perSpace := map[string]int64{}
	deadline := time.Now().Add(budget(tier))
	exhaustive := true
	wargs := func(si int, lo, loOrd, hi, hiOrd int64) []string {
		return []string{"lang", prop, tier, strconv.Itoa(si), strconv.FormatInt(lo, 10), strconv.FormatInt(loOrd, 10), strconv.FormatInt(hi, 10), strconv.FormatInt(hiOrd, 10)}
	}
	absorb := func(sp lang.Space, out pool.Outcome) {
		var r langShardResult
		if err := json.Unmarshal(out.Stdout, &r); err != nil {
			ev.Fatal("bad worker output: %v: %s", err, string(out.Stderr))
		}
		mu.Lock()
		mergeLang(&total, &r)
		perSpace[sp.Name()] += r.Inputs
		mu.Unlock()
		for _, v := range r.Viol {
			run.Report(ev.Violation{Key: strconv.Quote(v.Input), Class: v.Class, What: fmt.Sprintf("input %s (%s): %s", strconv.Quote(v.Input), v.Space, v.What),
				Case: map[string]any{"input": v.Input, "space": v.Space}})
		}
	}
	pool.Parallel(len(shards), func(k int) {
		sh := shards[k]
		sp := spaces[sh.si]
		lo, loOrd := sh.lo, int64(0)
		for attempt := 0; attempt < 200; attempt++ {
			if time.Now().After(deadline) {
				mu.Lock()
				exhaustive = false
				mu.Unlock()
				return
			}
			out := pool.RunWorker(wargs(sh.si, lo, loOrd, sh.hi, 0), nil, 15*time.Minute, false)
			if !out.Crashed() {
				absorb(sp, out)
				return
			}
			// the worker died or hung: the announced case is the culprit
			item, ord := out.Progress[0], out.Progress[1]
			input, ok := nthInput(sp, item, ord)
			if !ok {
				ev.Fatal("worker failed (exit=%d sig=%s) outside any case: %s", out.ExitCode, out.Signal, string(out.Stderr))
			}
			kind := "process-crash"
			if out.ExitCode == 3 || out.TimedOut {
				kind = "hang"
			}
			// confirm on the single input, twice, before believing it
			for c := 0; c < 2 && kind != ""; c++ {
				o2 := pool.RunWorker(wargs(sh.si, item, ord-1, item, ord), nil, 15*time.Minute, false)
				if !o2.Crashed() {
					kind = ""
				}
			}
			if kind != "" && (prop == "C08" || prop == "C16") {
				what := fmt.Sprintf("input %s: %s while lexing/parsing (exit=%d signal=%s): %s", strconv.Quote(input), kind, out.ExitCode, out.Signal, firstLines(string(out.Stderr), 3))
				run.Report(ev.Violation{Key: strconv.Quote(input), Class: kind, What: what, Case: map[string]any{"input": input, "space": sp.Name()}})
			}
			mu.Lock()
			total.Outcomes["worker-"+kind]++
			total.Inputs++
			perSpace[sp.Name()]++
			mu.Unlock()
			// results of the cases before the culprit died with the worker: redo them
			if item > lo || ord-1 > loOrd {
				o3 := pool.RunWorker(wargs(sh.si, lo, loOrd, item, ord-1), nil, 15*time.Minute, false)
				if o3.Crashed() {
					ev.Fatal("non-deterministic worker failure before %s: %s", strconv.Quote(input), string(o3.Stderr))
				}
				absorb(sp, o3)
			}
			lo, loOrd = item, ord
			if kind == "" {
				// not reproducible alone: count it as harness trouble, not a verdict
				fmt.Fprintf(os.Stderr, "harness warning: worker failure on %s not reproducible\n", strconv.Quote(input))
			}
		}
		// the worker keeps dying in this shard: every crash so far has been reported; give the rest up
		mu.Lock()
		exhaustive = false
		total.Outcomes["shard-abandoned-after-200-crashes"]++
		mu.Unlock()
	})
	if prop == "C07" || prop == "C11" || prop == "C15" {
		n, loaded := fmtBinary(run, prop)
		run.Set("binary_fmt_invocations", n)
		run.Set("binary_fmt_rewrites_checked", loaded)
	}
	if prop == "C08" {
		// supplementary free-running pass under the race detector (never the deciding step)
		if f := os.Getenv("VERIF_SUPP"); f != "" {
			var ro struct {
				Runs  int64          `json:"hash_calls"`
				Procs []int          `json:"gomaxprocs"`
				Viol  []ev.Violation `json:"viol"`
			}
			if data, err := os.ReadFile(f); err == nil && json.Unmarshal(data, &ro) == nil {
				for _, v := range ro.Viol {
					run.Report(v)
				}
				run.Set("supplementary_race_pass", map[string]any{"parses_under_race_detector": ro.Runs, "gomaxprocs": ro.Procs,
					"what": "the unmodified lexer and parser, free-running, built with -race: every string of <=3 alphabet symbols, every single edit of three programs, every (parser error, lexer error) pair on adjacent lines alone and below 3000 lines; then every input with a lexer-level error parsed by four goroutines at once and compared with what it gives alone. Supplementary only: it can add alarms backed by a race-detector report or by a concurrent parse answering differently from the same parse alone, it never decides the property"})
			}
		}
		if f := os.Getenv("VERIF_C08_SCHED"); f != "" {
			var sp struct {
				Inputs   int64          `json:"inputs"`
				Execs    int64          `json:"execs"`
				States   int64          `json:"states"`
				MaxSched int64          `json:"max_schedules_per_input"`
				Leaky    int64          `json:"inputs_leaving_the_lexer_goroutine_blocked"`
				Budget   int64          `json:"workers_out_of_budget"`
				Viol     []ev.Violation `json:"viol"`
			}
			data, err := os.ReadFile(f)
			if err != nil || json.Unmarshal(data, &sp) != nil {
				ev.Fatal("C08 schedule part result unreadable: %v", err)
			}
			for _, v := range sp.Viol {
				run.Report(v)
			}
			if sp.Budget > 0 {
				exhaustive = false
				run.Set("cap", "a worker of the schedule part exceeded the wall-clock budget")
			}
			run.Set("schedule_part", map[string]any{"inputs": sp.Inputs, "schedules_explored": sp.Execs, "scheduler_states": sp.States, "max_schedules_per_input": sp.MaxSched,
				"inputs_leaving_the_lexer_goroutine_blocked_after_the_parse_returned": sp.Leaky,
				"what": "every string of <=3 (thorough 4) alphabet symbols and every single edit of three programs (task bodies, a # inside a body, later errors) parsed under EVERY interleaving of lexer goroutine and parser (controlled scheduler over the mechanically rewritten lexer): no deadlock, livelock or panic, and one result per input over all schedules"})
			total.Inputs += sp.Inputs
			total.Tokens += sp.Execs
		}
	}
	for _, s := range total.Samples {
		run.Sample(s)
	}
	if len(total.Samples) == 0 {
		run.Sample("(no parsing input sampled)")
	}
	run.Set("evaluations", total.Inputs)
	run.Set("distinct_nontrivial", total.Distinct)
	run.Set("nontrivial_all_spaces", total.Nontrivial)
	run.Set("states", total.Inputs)
	run.Set("transitions", total.Inputs+total.Tokens)
	run.Set("traces_validated_against_impl", total.Inputs)
	run.Set("inputs_that_parse", total.Parsed)
	run.Set("outcomes", total.Outcomes)
	run.Set("inputs_per_space", perSpace)
	run.Set("exhaustive", exhaustive)
	var names []string
	for _, sp := range spaces {
		names = append(names, fmt.Sprintf("%s(items=%d)", sp.Name(), sp.Count()))
	}
	sort.Strings(names)
	run.Set("spaces", names)
	run.Set("rule", langRule(prop))
	run.Assumes("every input is executed on the real lexer/parser/formatter built from /repo's working tree (no model); states = inputs enumerated, transitions = inputs + tokens read",
		"alphabet: one representative per character class the scanner distinguishes; defects needing longer inputs or other bytes are out of bound")
	return run.Finish()
}

func langRule(prop string) string {
	base := "bounded-exhaustive enumeration: all strings of <=N symbols over the 25-symbol class alphabet (N=5 quick, 6 thorough; adjacent {,{ / },} sequences skipped as duplicates of {{ / }}); all abstract spokfiles of 1 statement (full alphabet), 2 statements (reduced) [3 (small) thorough] rendered in every layout with <=k deviating sections (k=1 quick, 2 thorough); every prefix and single-symbol insert/delete/substitute (symbols: the alphabet plus lone CR, backslash, NUL, '=', '-', '>', single quote, NBSP, U+2028, VT, U+0085, BOM, a combining mark, a letter outside the BMP, ZWJ, the keyword, an empty-comment line) of canonical renderings and of the repository's spokfiles; every pair of such edits of two tiny programs (thorough: of every rendering of <=40 bytes); every byte value 0x00-0xff inserted/substituted at every position of three (thorough: all reduced) programs; every string of <=2 (3) alphabet symbols above and below a 70000-byte comment line, string value and task. "
	base += "distinct_nontrivial counts conservatively: non-trivial sigma strings (distinct by construction) + non-trivial structure renderings longer than 24 bytes deduplicated per structure; edit-space inputs are evaluated but not counted as distinct. "
	switch prop {
	case "C06":
		return "structures x admissible layouts only (deviations in the dimensions C06 names); non-trivial = admissible rendering compared structurally with its generating structure"
	case "C16":
		return base + "non-trivial = token stream with more than one token"
	case "C08":
		return base + "non-trivial = every input (each has a tree-or-located-error outcome, parsed twice)"
	}
	return base + "non-trivial = input parses to a non-empty tree (the formatter round trip is then checked)"
}

func mergeLang(t, r *langShardResult) {
	t.Inputs += r.Inputs
	t.Parsed += r.Parsed
	t.Nontrivial += r.Nontrivial
	t.Distinct += r.Distinct
	t.Tokens += r.Tokens
	for k, v := range r.Outcomes {
		t.Outcomes[k] += v
	}
	if len(t.Samples) < 8 {
		t.Samples = append(t.Samples, r.Samples...)
	}
}

func firstLines(s string, n int) string {
	out := ""
	for i, c := 0, 0; i < len(s) && c < n; i++ {
		out += string(s[i])
		if s[i] == '\n' {
			c++
		}
	}
	return out
}

func budget(tier string) time.Duration {
	if v, err := strconv.Atoi(os.Getenv("VERIF_BUDGET_S")); err == nil && v > 0 {
		return time.Duration(v) * time.Second
	}
	if tier == "quick" {
		return 8 * time.Minute
	}
	return 90 * time.Minute
}

func langReplay(path string) int {
	var v ev.Violation
	data, err := os.ReadFile(path)
	if err != nil || json.Unmarshal(data, &v) != nil {
		ev.Fatal("cannot read replay file %s", path)
	}
	input, _ := v.Case["input"].(string)
	var res langShardResult
	res.Outcomes = map[string]int64{}
	fmt.Printf("replaying %s on input %s\n", v.Property, strconv.Quote(input))
	var verdict *lang.Verdict
	if v.Property == "C06" {
		// structure renderings: re-find the rendering in the C06 spaces
		for _, tier := range []string{"quick", "thorough"} {
			for _, sp := range lang.Spaces(tier, true, repoDir) {
				for i := int64(0); i < sp.Count() && verdict == nil; i++ {
					sp.Gen(i, func(in lang.Input) {
						if verdict == nil && in.Text == input && in.Admissible {
							verdict = lang.CheckC06(in.File, in.Text)
						}
					})
				}
			}
			if verdict != nil {
				break
			}
		}
	} else {
		verdict = evalLang(v.Property, lang.Input{Text: input}, &res)
	}
	if verdict != nil {
		fmt.Printf("VIOLATION property=%s replay=%s\n  %s: %s\n", v.Property, path, verdict.Class, verdict.What)
		return 1
	}
	fmt.Println("no violation on replay")
	return 0
}

func replay(path string) int {
	var v ev.Violation
	data, err := os.ReadFile(path)
	if err != nil || json.Unmarshal(data, &v) != nil {
		ev.Fatal("cannot read replay file %s", path)
	}
	fn, ok := replays[v.Engine]
	if !ok {
		ev.Fatal("no replay for engine %q", v.Engine)
	}
	pool.Init()
	defer pool.Cleanup()
	return fn(path)
}

// fmtBinary: the formatter as the user reaches it. `spok --fmt` parses, LOADS the file
// (file.New) and only then writes tree.String() over it; anything the in-place rewrite adds
// to the library formatter, and anything the load step does to the tree it shares with the
// formatter, shows here and nowhere else. Every text of a small corpus - in the layout given,
// with tab indentation and with CRLF line ends - is formatted in place by the built binary;
// prop selects the oracle: C07 same statements, C15 same comments and docstrings, C11 a
// second --fmt leaves the file byte-identical.
func fmtBinary(run *ev.Run, prop string) (int64, int64) {
	var base []string
	base = append(base, lang.CanonicalBases(lang.ReducedStatements(false), 1, 0)...)
	base = append(base, lang.CanonicalBases(lang.ReducedStatements(false), 2, 0)...)
	base = append(base,
		"BIN := \"bin/x\"\n# Builds\ntask build(lint, \"**/*.go\", \"go.mod\") -> (BIN, \"build.log\") {\n    go build ./...\n}\n\ntask lint(\"**/*.go\") {\n    echo lint\n}\n",
		"OUT := join(\"a\", \"b\")\ntask a(b, \"x\", c, \"y\") -> (\"o\", OUT, \"p\") { echo {{.OUT}} }\ntask b() {}\ntask c() {}\n",
		"V := exec(\"echo hi\")\nW := \"w\"\ntask t(\"*.md\", u) -> W {\n    echo {{.V}} {{.W}}\n}\ntask u(\"a\", \"b\", \"c\", \"d\") {}\n",
		// builtin arguments that look like interpolations
		"ROOT := \"r\"\nV := exec(\"echo {{.ROOT}}\")\nW := join(\"{{.ROOT}}\", \"b\")\n\ntask t(\"{{.ROOT}}/x\") -> \"{{.ROOT}}.out\" {\n    echo {{.V}} {{.W}}\n}\n",
		// runs of spaces and tabs inside comments, docstrings, strings and commands
		"# target    what it does\n# ------    ------------\n# build     compiles   everything\nNAME := \"a    b\"\n\n# Builds    the     thing\ntask build(\"x    y.txt\") -> \"out    dir\" {\n    echo a    b\n    echo '    indented'\n}\n",
		"# col\tcol\tcol\nTAB := \"a\tb\"\n\n# doc\twith\ttabs\ntask t(\"a\tb\") {\n    printf 'x\\ty'\t\"z\"\n}\n",
		"#    leading spaces in a comment\n#\tleading tab\n# trailing spaces    \nA := \"x\"\n\n#     Doc indented\ntask t() {\n        echo deeper\n    echo normal\n}\n# last    comment",
		"# one\n\n# two\nA := \"1\"\n# three\n\n# four    is a docstring\ntask t() {\n    echo {{.A}}    {{.A}}\n}\n\n# five\n",
	)
	// files just under 64 KiB and 1 MiB that grow past that size when formatted
	for _, limit := range []int{64 << 10, 1 << 20} {
		var sb strings.Builder
		for i := 0; sb.Len()+26 < limit; i++ {
			n := string([]byte{byte('a' + i/17576%26), byte('a' + i/676%26), byte('a' + i/26%26), byte('a' + i%26)})
			sb.WriteString("task " + n + "() { echo " + n + " }\n")
		}
		base = append(base, sb.String())
	}
	// a free comment and an undocumented task after 0..600 declarations (anything done per block of nodes shows at some count)
	var plain []string
	for pad := 0; pad <= 600; pad++ {
		var sb strings.Builder
		for i := 0; i < pad; i++ {
			fmt.Fprintf(&sb, "V%c%c%c := \"v\"\n", 'a'+i/676%26, 'a'+i/26%26, 'a'+i%26)
		}
		sb.WriteString("# Section: helper tasks\n#\ntask helper() {\n    echo helper\n}\n\n# Build it\ntask build() {\n    echo build\n}\n")
		plain = append(plain, sb.String())
	}
	var texts []string
	seen := map[string]bool{}
	for _, b := range plain {
		seen[b] = true
		texts = append(texts, b)
	}
	for _, b := range base {
		for _, v := range []string{b, strings.ReplaceAll(b, "\n    ", "\n\t"), strings.ReplaceAll(b, "\n", "\r\n"), strings.ReplaceAll(strings.ReplaceAll(b, "\n    ", "\n\t"), "\n", "\r\n")} {
			if !seen[v] {
				seen[v] = true
				texts = append(texts, v)
			}
		}
	}
	var mu sync.Mutex
	var n, rewritten int64
	pool.Parallel(len(texts), func(i int) {
		root := filepath.Join(pool.Scratch, fmt.Sprintf("c07bin.%d", i%64))
		c07SlotMu[i%64].Lock()
		v, after, ran, loaded := fmtBinaryOne(root, texts[i], prop)
		c07SlotMu[i%64].Unlock()
		mu.Lock()
		n += ran
		if loaded {
			rewritten++
		}
		mu.Unlock()
		if v != nil {
			run.Report(ev.Violation{Engine: "langmc-c07bin", Key: "fmt-binary " + strconv.Quote(texts[i]), Class: v.Class + "-through-spok-fmt",
				What: fmt.Sprintf("`spok --fmt` on %s wrote %s: %s", strconv.Quote(texts[i]), strconv.Quote(after), v.What), Case: map[string]any{"input": texts[i], "prop": prop}})
		}
	})
	return n, rewritten
}

// fmtBinaryOne formats one text in place with the built binary and applies prop's oracle.
func fmtBinaryOne(root, text, prop string) (v *lang.Verdict, after string, ran int64, loaded bool) {
	t := bin.Tree{Root: root}
	t.Reset()
	proj := t.Mkdir("home/w/proj")
	path := t.File("home/w/proj/spokfile", text)
	// what an interrupted editor or an interrupted earlier --fmt may have left next to it
	var junk strings.Builder
	for i := 0; junk.Len() < 6000; i++ {
		fmt.Fprintf(&junk, "task leftover%c%c() {\n    echo leftover\n}\n\n", 'a'+i/26%26, 'a'+i%26)
	}
	for _, n := range []string{"spokfile.tmp", ".spokfile.tmp", "spokfile~", "spokfile.new", "spokfile.bak", ".spokfile.swp", "spokfile.orig"} {
		t.File("home/w/proj/"+n, junk.String())
	}
	o := bin.Run(proj, filepath.Join(root, "home"), nil, "--fmt")
	ran++
	if o.Died() {
		return &lang.Verdict{Class: "process-crash", What: fmt.Sprintf("spok --fmt died: %s", firstLines(o.Stderr, 3))}, "", ran, false
	}
	ab, _ := os.ReadFile(path)
	after = string(ab)
	if o.Exit != 0 {
		return nil, after, ran, false // did not load (C19 checks it stays untouched)
	}
	t1, e1 := parser.New(text).Parse()
	if e1 != nil {
		return nil, after, ran, false
	}
	t2, e2 := parser.New(after).Parse()
	r := lang.FmtResult{Parsed: true, T1: t1, S1: after, T2: t2, Err2: e2}
	switch prop {
	case "C07":
		v = lang.CheckC07(r)
		if v == nil {
			// it loaded before (or --fmt would have refused): it must still load
			o2 := bin.Run(proj, filepath.Join(root, "home"), nil, "--vars")
			ran++
			if o2.Exit != 0 || o2.Died() {
				v = &lang.Verdict{Class: "fmt-output-does-not-load", What: fmt.Sprintf("after --fmt, `spok --vars` exits %d: %s", o2.Exit, firstLines(o2.Stderr, 2))}
			}
		}
	case "C15":
		v = lang.CheckC15(r)
	case "C11":
		o2 := bin.Run(proj, filepath.Join(root, "home"), nil, "--fmt")
		ran++
		again, _ := os.ReadFile(path)
		if o2.Exit != 0 || o2.Died() {
			v = &lang.Verdict{Class: "second-fmt-fails", What: fmt.Sprintf("the second --fmt exits %d: %s", o2.Exit, firstLines(o2.Stderr, 2))}
		} else if string(again) != after {
			v = &lang.Verdict{Class: "not-idempotent", What: fmt.Sprintf("the second --fmt turned it into %s", strconv.Quote(string(again)))}
		}
	}
	return v, after, ran, true
}

func fmtBinaryReplay(path string) int {
	var v ev.Violation
	data, _ := os.ReadFile(path)
	json.Unmarshal(data, &v)
	text, _ := v.Case["input"].(string)
	prop, _ := v.Case["prop"].(string)
	if prop == "" {
		prop = v.Property
	}
	root := filepath.Join(pool.Scratch, "replay")
	os.MkdirAll(root, 0o755)
	fmt.Printf("replaying spok --fmt (%s) on %s\n", prop, strconv.Quote(text))
	vd, after, _, _ := fmtBinaryOne(root, text, prop)
	fmt.Printf("file afterwards: %s\n", strconv.Quote(after))
	if vd != nil {
		fmt.Printf("VIOLATION property=%s replay=%s\n  %s: %s\n", v.Property, path, vd.Class, vd.What)
		return 1
	}
	fmt.Println("no violation on replay")
	return 0
}

var c07SlotMu [64]sync.Mutex
