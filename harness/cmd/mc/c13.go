package main

import (
	"encoding/json"
	"fmt"
	"os"
	"path/filepath"
	"strconv"
	"strings"
	"sync"

	"verifharness/internal/bin"
	"verifharness/internal/ev"
	"verifharness/internal/pool"
)

func init() {
	checks["C13"] = c13Check
	replays["cfgmc-c13"] = c13Replay
}

type c13Case struct {
	Name   string   `json:"name"`            // variable name
	Kind   string   `json:"kind"`            // string | join | exec | execfail
	Value  string   `json:"value,omitempty"` // string: literal text; exec: word printed with surrounding white space
	Parts  []string `json:"parts,omitempty"` // join arguments
	Cmd    string   `json:"cmd,omitempty"`   // execraw: the command; Value is the expected result
	Second bool     `json:"second"`          // a second variable W is defined too and used next to the first
	Nested bool     `json:"nested"`          // run from a nested working directory
	Twin   bool     `json:"twin,omitempty"`  // a variable whose name differs only in letter case is defined too
	Pos    string   `json:"pos,omitempty"`   // where the variable is declared: "" above every task, "between" the two tasks, "below" both
	Spell  int      `json:"spell,omitempty"` // how the first reference is written (c13Spellings); 0 = {{.NAME}}
}

// c13Spellings: the same reference as the template language lets one write it. The last entry
// ("novars" cases only) has no reference at all: template text that produces literal braces.
var c13Spellings = []string{"{{.%s}}", "{{ .%s }}", "{{- .%s -}}", "{{$.%s}}", `{{printf "%%s" .%s}}`, "{{.%s | print}}", "{{with .%s}}{{.}}{{end}}"}

func (c c13Case) ref() string { return fmt.Sprintf(c13Spellings[c.Spell], c.Name) }

// Env, Names, String: names that coincide with plausible method names of whatever value the template engine is handed
var c13Names = []string{"V", "HOME", "AMB", "DOT", "BOTH", "Env", "Names", "String"}
var c13Values = []string{"plain", "in ner", " lead", "trail ", "$x", "${x}", "{", "}", "a=b", "#", "'", "", "é-ü", "x'y z", "-n", "%s", "a\tb", "{{.W}}", "a{{.HOME}}b", "100%", "{{"}

// c13Twin: the same name in the other letter case
func c13Twin(n string) string {
	if strings.ToUpper(n) == n {
		return strings.ToLower(n)
	}
	return strings.ToUpper(n)
}

func shellSafe(v string) bool { return !strings.ContainsAny(v, "'\n\r()") }

func (c c13Case) text() string {
	var sb strings.Builder
	if c.Kind == "novars" {
		// no variable anywhere in the file: the command is still a template
		return "task tmpl() {\n    echo {{\"{{\"}}.Names{{\"}}\"}} {{printf \"%s\" \"lit\"}} $UNTOUCHED {{/* gone */}}end\n}\n"
	}
	sb.WriteString(c.declText(""))
	second := ""
	if c.Second {
		second = "{{.W}}"
	}
	if c.Pos == "" {
		if c.Spell == 0 {
			fmt.Fprintf(&sb, "\ntask tmpl() {\n    echo X{{.%s}}X literal $UNTOUCHED %s {{.%s}}\n}\n\n", c.Name, second, c.Name)
		} else {
			// no reference in the plain spelling anywhere in the command (unless W is there)
			fmt.Fprintf(&sb, "\ntask tmpl() {\n    echo X%sX literal $UNTOUCHED %s Y%sY\n}\n\n", c.ref(), second, c.ref())
		}
	} else {
		sb.WriteString("\ntask tmpl() {\n    echo nothing\n}\n\n")
	}
	sb.WriteString(c.declText("between"))
	if c.Kind == "execbig" {
		// a value too long for one argument of execve: read by the shell itself and written, by the shell itself, to a file
		fmt.Fprintf(&sb, "task envt() {\n    printf '%%s' \"$%s\" > \"$VCTL/big.out\"\n}\n\n", c.Name)
		sb.WriteString(c.declText("below"))
		return sb.String()
	}
	// the first command rebinds the name inside its own shell: later commands still get the spokfile value
	fmt.Fprintf(&sb, "task envt() {\n    %s=shadowed && export %s\n    printf '%%s\\n' \"$%s\"\n", c.Name, c.Name, c.Name)
	if c.Second {
		sb.WriteString("    printf '%s\\n' \"$W\"\n")
	}
	if c.Twin {
		fmt.Fprintf(&sb, "    printf '%%s\\n' \"$%s\"\n", c13Twin(c.Name))
	}
	// the same variable as seen by an external process started by the command
	fmt.Fprintf(&sb, "    sh -c 'printf \"%%s\\n\" \"$%s\"'\n", c.Name)
	// ... and whether it is there at all (an empty value is not the same as no variable)
	fmt.Fprintf(&sb, "    env | grep -c \"^%s=\" || true\n", c.Name)
	sb.WriteString("}\n\n")
	sb.WriteString(c.declText("below"))
	return sb.String()
}

// declText: the variable declarations, when pos is where this case puts them
func (c c13Case) declText(pos string) string {
	if pos != c.Pos {
		return ""
	}
	var sb strings.Builder
	switch c.Kind {
	case "string":
		fmt.Fprintf(&sb, "%s := \"%s\"\n", c.Name, c.Value)
	case "join":
		q := make([]string, len(c.Parts))
		for i, p := range c.Parts {
			q[i] = `"` + p + `"`
		}
		fmt.Fprintf(&sb, "%s := join(%s)\n", c.Name, strings.Join(q, ", "))
	case "exec":
		fmt.Fprintf(&sb, "%s := exec(\"printf '  \\n %s \\t\\n\\n'\")\n", c.Name, c.Value)
	case "execraw":
		fmt.Fprintf(&sb, "%s := exec(\"%s\")\n", c.Name, c.Cmd)
	case "exectwice":
		// each evaluation appends a line to a counter file and yields the number of lines so far
		fmt.Fprintf(&sb, "FIRST := exec(\"echo l >> $CNT; wc -l < $CNT\")\n%s := exec(\"echo l >> $CNT; wc -l < $CNT\")\n", c.Name)
	case "execbig":
		fmt.Fprintf(&sb, "%s := exec(\"head -c %s /dev/zero | tr '\\0' a\")\n", c.Name, c.Value)
	case "execfail":
		fmt.Fprintf(&sb, "%s := exec(\"exit 3\")\n", c.Name)
	}
	if c.Second {
		sb.WriteString("W := \"second\"\n")
	}
	if c.Twin {
		fmt.Fprintf(&sb, "%s := \"twinvalue\"\n", c13Twin(c.Name))
	}
	return sb.String()
}

func c13Cases(tier string) []c13Case {
	var out []c13Case
	for _, n := range c13Names {
		for _, v := range c13Values {
			for _, second := range []bool{false, true} {
				if second && tier != "thorough" && n != "V" && n != "BOTH" {
					continue
				}
				out = append(out, c13Case{Name: n, Kind: "string", Value: v, Second: second})
			}
		}
	}
	for _, n := range []string{"V", "tgt", "HOME", "AMB"} {
		for _, v := range []string{"plain", "a=b", ""} {
			out = append(out, c13Case{Name: n, Kind: "string", Value: v, Twin: true})
		}
	}
	partsets := [][]string{{"cur", "bin"}, {"cur"}, {"lnkfile"}, {"rel", "v2", "bin"}, {"cur", "..", "cur", "bin"}, {"a"}, {"a", "b"}, {".", "bin"}, {"..", "x"}, {""}, {"", "a"}, {"a", ""}, {"a", "..", "b"}, {"a/b", "c"}, {"a", ".", "b"}, {"./a/", "b/"}, {"..", ".."}, {}, {"/abs", "x"}, {"a", "/b"}, {"a", "b", "c", "d"}, {"a//b", "./c/../d"}}
	for _, ps := range partsets {
		for _, n := range []string{"V", "HOME"} {
			for _, nested := range []bool{false, true} {
				out = append(out, c13Case{Name: n, Kind: "join", Parts: ps, Nested: nested})
			}
		}
	}
	for _, v := range []string{"word", "two words", "é", "a=b"} {
		for _, n := range []string{"V", "AMB"} {
			out = append(out, c13Case{Name: n, Kind: "exec", Value: v})
		}
	}
	// declared between or below the tasks: still in every command's environment
	for _, pos := range []string{"between", "below"} {
		for _, n := range []string{"V", "AMB", "DOT", "BOTH", "HOME"} {
			for _, v := range []string{"plain", "", "a=b"} {
				out = append(out, c13Case{Name: n, Kind: "string", Value: v, Pos: pos, Second: v == "plain"})
			}
			out = append(out, c13Case{Name: n, Kind: "join", Parts: []string{"a", "b"}, Pos: pos})
			out = append(out, c13Case{Name: n, Kind: "exec", Value: "word", Pos: pos})
		}
	}
	out = append(out, c13Case{Name: "V", Kind: "execfail"}, c13Case{Name: "DOT", Kind: "execfail"})
	// values around the longest string one argument of execve may be (131072 bytes incl. "NAME=" and the NUL)
	for _, n := range []string{"131069", "131070", "131071", "200000"} {
		out = append(out, c13Case{Name: "V", Kind: "execbig", Value: n}, c13Case{Name: "AMB", Kind: "execbig", Value: n})
	}
	// two variables defined by the very same command text, whose output differs from one evaluation to the next
	out = append(out, c13Case{Name: "V", Kind: "exectwice"}, c13Case{Name: "AMB", Kind: "exectwice"})
	// exec whose command reads a variable that only the .env file provides
	out = append(out, c13Case{Name: "V", Kind: "execraw", Cmd: `echo got-$DOT`, Value: "got-dotvalue"})
	// exec whose command writes to standard error, and nothing or only white space to standard output
	for _, n := range []string{"V", "AMB"} {
		out = append(out,
			c13Case{Name: n, Kind: "execraw", Cmd: `echo warning 1>&2`, Value: ""},
			c13Case{Name: n, Kind: "execraw", Cmd: `echo warning 1>&2; printf ' \n'`, Value: ""},
			c13Case{Name: n, Kind: "execraw", Cmd: `echo out; echo warning 1>&2`, Value: "out"})
	}
	// the reference written in the other ways the template language has for it, and a file without
	// any variable whose command is a template all the same
	for sp := 1; sp < len(c13Spellings); sp++ {
		for _, v := range []string{"plain", "in ner", "$x"} {
			out = append(out, c13Case{Name: "V", Kind: "string", Value: v, Spell: sp}, c13Case{Name: "AMB", Kind: "string", Value: v, Spell: sp, Second: true})
		}
	}
	out = append(out, c13Case{Name: "V", Kind: "novars"})
	// exec output that is not plain text: terminal escape sequences, inner newlines, CRLF
	out = append(out,
		c13Case{Name: "V", Kind: "execraw", Cmd: `printf '\033[31mred\033[0m'`, Value: "\x1b[31mred\x1b[0m"},
		c13Case{Name: "V", Kind: "execraw", Cmd: `printf 'a\nb\n'`, Value: "a\nb"},
		c13Case{Name: "V", Kind: "execraw", Cmd: `printf 'a\r\nb'`, Value: "a\r\nb"},
		c13Case{Name: "V", Kind: "execraw", Cmd: `printf '\033(Bx'`, Value: "\x1b(Bx"})
	return out
}

type c13Obs struct{ cls, what string }

func c13Run(root string, c c13Case) (obs []c13Obs, inv int) {
	t := bin.Tree{Root: root}
	t.Reset()
	proj := t.Mkdir("home/w/proj")
	t.Mkdir("home/w/proj/nest/deeper")
	home := filepath.Join(root, "home")
	t.File("home/w/proj/spokfile", c.text())
	t.File("home/w/proj/.env", "DOT=dotvalue\nBOTH=dotboth\n")
	// paths that exist and lead through symbolic links (join() is about text, not about the file system)
	for _, base := range []string{"home/w/proj", "home/w/proj/nest/deeper"} {
		t.File(base+"/rel/v2/bin", "x\n")
		os.Symlink("rel/v2", filepath.Join(root, base, "cur"))
		os.Lchown(filepath.Join(root, base, "cur"), 65534, 65534)
		os.Symlink("rel/v2/bin", filepath.Join(root, base, "lnkfile"))
		os.Lchown(filepath.Join(root, base, "lnkfile"), 65534, 65534)
	}
	env := []string{"AMB=ambientvalue", "BOTH=ambboth", "UNTOUCHED=u"}
	cwd := proj
	if c.Kind == "novars" {
		var rep []struct {
			Results []struct {
				Cmd    string `json:"cmd"`
				Stdout string `json:"stdout"`
			} `json:"results"`
		}
		o := bin.Run(cwd, home, env, "tmpl", "--json")
		inv++
		const wantCmd = "echo {{.Names}} lit $UNTOUCHED end"
		switch {
		case o.Exit != 0 || o.Died() || json.Unmarshal([]byte(o.Stdout), &rep) != nil || len(rep) != 1 || len(rep[0].Results) != 1:
			obs = append(obs, c13Obs{"unexpected-failure", fmt.Sprintf("tmpl --json in a file without variables: exit=%d stdout=%q stderr=%s", o.Exit, clip(o.Stdout), firstLines(o.Stderr, 3))})
		case rep[0].Results[0].Cmd != wantCmd:
			obs = append(obs, c13Obs{"template-substitution", fmt.Sprintf("file without variables: command text is %q, the template gives %q", rep[0].Results[0].Cmd, wantCmd)})
		case rep[0].Results[0].Stdout != "{{.Names}} lit u end\n":
			obs = append(obs, c13Obs{"template-substitution", fmt.Sprintf("file without variables: the command printed %q, not %q", rep[0].Results[0].Stdout, "{{.Names}} lit u end\n")})
		}
		return
	}
	if c.Nested {
		cwd = filepath.Join(proj, "nest", "deeper")
	}
	want := c.Value
	switch c.Kind {
	case "join":
		// "the absolute cleaned join of its arguments": relative results are relative to the working directory
		want = filepath.Join(c.Parts...)
		if !filepath.IsAbs(want) {
			want = filepath.Join(cwd, want)
		}
	case "exectwice":
		ctl := t.Mkdir("ctl")
		os.Chmod(ctl, 0o777)
		cnt := filepath.Join(ctl, "cnt")
		o := bin.Run(cwd, home, append(env, "CNT="+cnt), "--vars")
		inv++
		if o.Exit != 0 || o.Died() {
			return []c13Obs{{"unexpected-failure", fmt.Sprintf("--vars: exit=%d %s", o.Exit, firstLines(o.Stderr, 3))}}, inv
		}
		got := map[string]string{}
		for _, l := range strings.Split(o.Stdout, "\n") {
			if f := strings.Fields(l); len(f) == 2 {
				got[f[0]] = f[1]
			}
		}
		lines := len(readLog(cnt))
		if got["FIRST"] != "1" || got[c.Name] != "2" || lines != 2 {
			obs = append(obs, c13Obs{"exec-not-evaluated-per-variable", fmt.Sprintf("FIRST and %s are both defined as exec of a command that appends a line to a file and prints the line count: --vars shows FIRST=%q %s=%q and the command ran %d time(s); expected 1, 2 and two runs", c.Name, got["FIRST"], c.Name, got[c.Name], lines)})
		}
		return
	case "execbig":
		ctl := t.Mkdir("ctl")
		o := bin.Run(cwd, home, append(env, "VCTL="+ctl), "envt", "--json")
		inv++
		if o.Exit != 0 || o.Died() {
			return []c13Obs{{"unexpected-failure", fmt.Sprintf("envt --json with a %s-byte value: exit=%d stderr=%s", c.Value, o.Exit, firstLines(o.Stderr, 3))}}, inv
		}
		got, _ := os.ReadFile(filepath.Join(ctl, "big.out"))
		if n, _ := strconv.Atoi(c.Value); len(got) != n || strings.Trim(string(got), "a") != "" {
			obs = append(obs, c13Obs{"env-value-differs", fmt.Sprintf("the variable holds %s bytes; what the command's environment holds has %d bytes (%q...)", c.Value, len(got), clip(string(got)))})
		}
		return
	case "execfail":
		o := bin.Run(cwd, home, env, "envt", "--json")
		inv++
		if o.Exit == 0 || o.Died() {
			obs = append(obs, c13Obs{"failing-exec-not-an-error", fmt.Sprintf("exec(\"exit 3\") failed but spok exit=%d signal=%s", o.Exit, o.Signal)})
		}
		return
	}
	// --vars
	o := bin.Run(cwd, home, env, "--vars")
	inv++
	if o.Exit != 0 || o.Died() {
		return []c13Obs{{"unexpected-failure", fmt.Sprintf("--vars: exit=%d %s", o.Exit, firstLines(o.Stderr, 3))}}, inv
	}
	if want == strings.TrimSpace(want) && want != "" && !strings.ContainsAny(want, "\t\n\r\x1b") {
		found := false
		for _, l := range strings.Split(o.Stdout, "\n") {
			f := strings.Fields(l)
			if len(f) > 0 && f[0] == c.Name {
				found = true
				if got := strings.Join(f[1:], " "); got != want {
					obs = append(obs, c13Obs{"vars-value", fmt.Sprintf("--vars shows %s = %q, expected %q", c.Name, got, want)})
				}
			}
		}
		if !found {
			obs = append(obs, c13Obs{"vars-missing", fmt.Sprintf("--vars does not list %s: %q", c.Name, clip(o.Stdout))})
		}
	}
	type cmdres struct {
		Cmd    string `json:"cmd"`
		Stdout string `json:"stdout"`
		Status int    `json:"status"`
	}
	type taskres struct {
		Task    string   `json:"task"`
		Results []cmdres `json:"results"`
	}
	// environment
	o = bin.Run(cwd, home, env, "envt", "--json")
	inv++
	var rep []taskres
	if o.Exit != 0 || o.Died() || json.Unmarshal([]byte(o.Stdout), &rep) != nil || len(rep) != 1 {
		obs = append(obs, c13Obs{"unexpected-failure", fmt.Sprintf("envt --json: exit=%d stdout=%q stderr=%s", o.Exit, clip(o.Stdout), firstLines(o.Stderr, 3))})
	} else {
		wantEnv := []string{"", want + "\n"} // the first command prints nothing
		if c.Second {
			wantEnv = append(wantEnv, "second\n")
		}
		if c.Twin {
			wantEnv = append(wantEnv, "twinvalue\n")
		}
		wantEnv = append(wantEnv, want+"\n") // external process
		if !strings.Contains(want, "\n") {
			wantEnv = append(wantEnv, "1\n") // present in the environment exactly once
		}
		for i, w := range wantEnv {
			if i >= len(rep[0].Results) {
				obs = append(obs, c13Obs{"unexpected-failure", "missing command result"})
				break
			}
			if got := rep[0].Results[i].Stdout; got != w {
				cls := "env-value-differs"
				if c.Name != "V" && i == 1 {
					cls = "ambient-or-dotenv-value-wins"
				}
				obs = append(obs, c13Obs{cls, fmt.Sprintf("command `%s` printed %q, the variable's spokfile value is %q", rep[0].Results[i].Cmd, got, strings.TrimSuffix(w, "\n"))})
			}
		}
	}
	// template
	if shellSafe(want) && c.Pos == "" {
		o = bin.Run(cwd, home, env, "tmpl", "--json")
		inv++
		rep = nil
		if o.Exit != 0 || o.Died() || json.Unmarshal([]byte(o.Stdout), &rep) != nil || len(rep) != 1 || len(rep[0].Results) != 1 {
			obs = append(obs, c13Obs{"unexpected-failure", fmt.Sprintf("tmpl --json: exit=%d stdout=%q stderr=%s", o.Exit, clip(o.Stdout), firstLines(o.Stderr, 3))})
		} else {
			second := ""
			if c.Second {
				second = "second"
			}
			wantCmd := fmt.Sprintf("echo X%sX literal $UNTOUCHED %s %s", want, second, want)
			if c.Spell != 0 {
				wantCmd = fmt.Sprintf("echo X%sX literal $UNTOUCHED %s Y%sY", want, second, want)
			}
			if rep[0].Results[0].Cmd != wantCmd {
				obs = append(obs, c13Obs{"template-substitution", fmt.Sprintf("command text is %q, textual substitution gives %q", rep[0].Results[0].Cmd, wantCmd)})
			}
		}
	}
	return
}

var c13SlotMu [64]sync.Mutex

func c13Check(tier string) int {
	run := ev.NewRun("C13", tier, "model_checking", "cfgmc-c13")
	cases := c13Cases(tier)
	var mu sync.Mutex
	var invocations int64
	outcomes := map[string]int64{}
	pool.Parallel(len(cases), func(i int) {
		slot := i % 64
		c13SlotMu[slot].Lock()
		root := filepath.Join(pool.Scratch, fmt.Sprintf("c13.%d", slot))
		os.MkdirAll(root, 0o755)
		obs, inv := c13Run(root, cases[i])
		c13SlotMu[slot].Unlock()
		mu.Lock()
		invocations += int64(inv)
		if len(obs) == 0 {
			outcomes["ok"]++
		}
		for _, o := range obs {
			outcomes["violation:"+o.cls]++
		}
		mu.Unlock()
		for _, o := range obs {
			var m map[string]any
			json.Unmarshal(pool.MustJSON(cases[i]), &m)
			run.Report(ev.Violation{Key: string(pool.MustJSON(cases[i])) + " " + o.cls, Class: o.cls, What: fmt.Sprintf("variable %s (%s %q%v): %s", cases[i].Name, cases[i].Kind, cases[i].Value, cases[i].Parts, o.what), Case: m})
		}
		if i%37 == 5 {
			run.Sample(map[string]any{"case": cases[i], "spokfile": cases[i].text()})
		}
	})
	run.Set("states", int64(len(cases)))
	run.Set("transitions", invocations)
	run.Set("traces_validated_against_impl", invocations)
	run.Set("evaluations", invocations)
	run.Set("distinct_nontrivial", int64(len(cases)))
	run.Set("outcomes", outcomes)
	run.Set("rule", "states = variable configurations: name in {V (unset elsewhere), HOME, AMB (ambient), DOT (.env), BOTH} x value kind {string over a 17-value alphabet (blanks, $x, ${x}, braces, =, #, quote, empty, non-ASCII, tab, %s, -n), join of 0..3 parts incl. '.', '..', '' from the root and a nested cwd, exec printing the value inside white space, failing exec} x with/without a second variable; transitions = invocations of the built binary: --vars, a task printing \"$NAME\" (environment), a task whose text holds {{.NAME}} twice beside literal text and an unrelated $UNTOUCHED (template, compared with textual substitution)")
	run.Assumes("values cannot contain a double quote or newline (the syntax has no escapes)", "template commands are only run for values that keep the command valid shell syntax")
	return run.Finish()
}

func c13Replay(path string) int {
	var v ev.Violation
	data, _ := os.ReadFile(path)
	json.Unmarshal(data, &v)
	var c c13Case
	json.Unmarshal(pool.MustJSON(v.Case), &c)
	root := filepath.Join(pool.Scratch, "replay")
	os.MkdirAll(root, 0o755)
	fmt.Printf("replaying C13: %+v\n%s", c, c.text())
	obs, _ := c13Run(root, c)
	for _, o := range obs {
		fmt.Printf("  %s: %s\n", o.cls, o.what)
	}
	if len(obs) > 0 {
		fmt.Printf("VIOLATION property=C13 replay=%s\n", path)
		return 1
	}
	fmt.Println("no violation on replay")
	return 0
}
