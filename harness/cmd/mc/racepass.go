package main

import (
	"encoding/json"
	"fmt"
	"os"
	"path/filepath"
	"runtime"
	"strconv"
	"strings"
	"sync"
	"time"

	"github.com/FollowTheProcess/spok/hash"
	"github.com/FollowTheProcess/spok/parser"

	"verifharness/internal/ev"
	"verifharness/internal/lang"
	"verifharness/internal/pool"
)

// Supplementary, non-deciding pass for C04/C18: the unmodified hash package run
// free-running under the race detector (this binary is built with -race) with
// GOMAXPROCS in {1,2,4,16}. A cooperative scheduler cannot see unsynchronised memory
// accesses; the race detector can, and only ever reports real races.

func init() {
	replays["racepass"] = func(path string) int {
		fmt.Println("this finding is a race-detector report of the supplementary free-running pass (its text is in the file): re-run the check to reproduce")
		return 2
	}
	checks["racepass"] = racePass
	workers["race"] = raceWorker
	checks["racepass08"] = racePass08
	workers["race08"] = race08Worker
}

// Supplementary pass for C08: the unmodified lexer and parser (two goroutines per parse) run
// free-running under the race detector over every string of <= 3 alphabet symbols, every single
// edit of three programs, and every (parser-level error, lexer-level error) pair placed on
// adjacent lines - alone and below 3000 lines of filler, so that the lexer is still busy when
// the parser gives up.
func race08Inputs() []string {
	var out []string
	add := func(in lang.Input) { out = append(out, in.Text) }
	sg := lang.SigmaSpace{N: 3}
	for i := int64(0); i < sg.Count(); i++ {
		sg.Gen(i, add)
	}
	ed := lang.EditSpace{Label: "race-edit", Bases: []string{"X := \"x\"\n# c\ntask a(\"x.go\", b) -> (\"o\", X) {\n    echo {{.X}} a\n}\n", "task a() { echo a }\ntask b(a) -> X {}\n", "Y := join(\"a\", X)\n"}}
	for i := int64(0); i < ed.Count(); i++ {
		ed.Gen(i, add)
	}
	perr := []string{"task a()\nb\n", "X := \"a\" \"b\"\n", "task a(\"x\" \"y\") {}\n", "task a() -> {}\n", "X Y\n", "task a(b\n"}
	lerr := []string{"foo bar\n", "X := \"unterminated\n", "task ?\n", "@\n", "task a() { echo {{.X }\n", "X := 'q'\n"}
	filler := strings.Repeat("# comment line\nV := \"v\"\n", 1500)
	for _, p := range perr {
		for _, l := range lerr {
			out = append(out, p+l, l+p, filler+p+l, filler+l+p)
		}
	}
	return out
}

// worker: mc worker race08 <reps>
func race08Worker(args []string) {
	reps, _ := strconv.Atoi(args[0])
	n := 0
	ins := race08Inputs()
	for r := 0; r < reps; r++ {
		for _, x := range ins {
			parser.New(x).Parse()
			n++
		}
		runtime.Gosched()
	}
	// several parses in flight in one process (a library user, a test suite, a language server):
	// every input with an error at lexer level, parsed by four goroutines at once, must give what
	// it gives alone - anything two parses share (a package-level buffer) shows up as a different
	// answer here, and as a report of the race detector
	obs := func(x string) string {
		tree, err := parser.New(x).Parse()
		if err != nil {
			return "error: " + err.Error()
		}
		return tree.String()
	}
	var conc []string
	for _, x := range ins {
		if len(x) < 200 && strings.HasPrefix(obs(x), "error: ") {
			conc = append(conc, x)
		}
	}
	for _, x := range ins[len(ins)-144:] {
		if len(x) >= 200 {
			conc = append(conc, x)
		}
	}
	alone := make([]string, len(conc))
	for i, x := range conc {
		alone[i] = obs(x)
	}
	var mu sync.Mutex
	differ := ""
	var wg sync.WaitGroup
	for g := 0; g < 4; g++ {
		wg.Add(1)
		go func(g int) {
			defer wg.Done()
			for k := range conc {
				i := (k + g*len(conc)/4) % len(conc)
				if got := obs(conc[i]); got != alone[i] {
					mu.Lock()
					if differ == "" {
						differ = fmt.Sprintf("input %q parsed alone gives %q, parsed while three other parses are in flight it gives %q", conc[i], alone[i], got)
					}
					mu.Unlock()
				}
			}
		}(g)
	}
	wg.Wait()
	n += 4 * len(conc)
	time.Sleep(50 * time.Millisecond)
	fmt.Printf("{\"calls\": %d, \"concurrent\": %d, \"differ\": %s}", n, 4*len(conc), strconv.Quote(differ))
}

func racePass08(tier string) int {
	var out raceOut
	dst := os.Getenv("VERIF_SUPP_OUT")
	reps := 2
	if tier == "thorough" {
		reps = 10
	}
	for _, procs := range []int{2, 4, 16} {
		o := pool.RunWorker([]string{"race08", strconv.Itoa(reps)}, nil, 10*time.Minute, true, "GOMAXPROCS="+strconv.Itoa(procs), "GORACE=halt_on_error=1 exitcode=66")
		out.Procs = append(out.Procs, procs)
		se := string(o.Stderr)
		var r struct {
			Calls  int64  `json:"calls"`
			Differ string `json:"differ"`
		}
		switch {
		case strings.Contains(se, "DATA RACE"):
			i := strings.Index(se, "WARNING: DATA RACE")
			out.Viol = append(out.Viol, ev.Violation{Engine: "racepass", Key: "data-race GOMAXPROCS=" + strconv.Itoa(procs), Class: "data-race",
				What: fmt.Sprintf("race detector report while parsing with GOMAXPROCS=%d (lexer goroutine and parser touch the same memory without synchronisation: what a parse returns is then up to the scheduler):\n%s", procs, firstLines(se[i:], 16)), Case: map[string]any{"gomaxprocs": procs}})
		case o.TimedOut:
			// budget: not a verdict
		case o.Crashed():
			out.Viol = append(out.Viol, ev.Violation{Engine: "racepass", Key: "crash GOMAXPROCS=" + strconv.Itoa(procs), Class: "process-crash",
				What: fmt.Sprintf("free-running parsing died with GOMAXPROCS=%d (exit=%d signal=%s): %s", procs, o.ExitCode, o.Signal, firstLines(se, 10)), Case: map[string]any{"gomaxprocs": procs}})
		default:
			if json.Unmarshal(o.Stdout, &r) == nil {
				out.Runs += r.Calls
				if r.Differ != "" {
					out.Viol = append(out.Viol, ev.Violation{Engine: "racepass", Key: "concurrent-parses GOMAXPROCS=" + strconv.Itoa(procs), Class: "result-depends-on-other-parses-in-flight",
						What: fmt.Sprintf("GOMAXPROCS=%d: %s", procs, r.Differ), Case: map[string]any{"gomaxprocs": procs}})
				}
			}
		}
	}
	if dst == "" {
		os.Stdout.Write(pool.MustJSON(out))
		return 0
	}
	os.WriteFile(dst, pool.MustJSON(out), 0o644)
	fmt.Printf("race pass: %d parses under -race, GOMAXPROCS %v, findings=%d\n", out.Runs, out.Procs, len(out.Viol))
	return 0
}

type raceOut struct {
	Runs     int64          `json:"hash_calls"`
	Procs    []int          `json:"gomaxprocs"`
	Shapes   int            `json:"list_shapes"`
	Leaks    int            `json:"goroutine_leak_checks"`
	Viol     []ev.Violation `json:"viol"`
	Disabled string         `json:"disabled,omitempty"`
}

func raceShapes(root string) [][]string {
	f := func(n string) string { return filepath.Join(root, n) }
	var shapes [][]string
	shapes = append(shapes, nil, []string{f("a")}, []string{f("a"), f("b")}, []string{f("a"), f("a"), f("b")}, []string{f("dd"), f("a")},
		[]string{f("gone"), f("a"), f("b")}, []string{f("a"), f("gone")}, []string{f("dang"), f("gone"), f("a"), f("b"), f("noperm")},
		// several files larger than any plausible read buffer, read by different workers at the same time
		[]string{f("big0"), f("big1"), f("big2"), f("a"), f("big3"), f("b"), f("big4"), f("big5")})
	for _, n := range []int{runtime.NumCPU() - 1, runtime.NumCPU(), runtime.NumCPU() + 1, 4 * runtime.NumCPU(), 1000} {
		var l []string
		for i := 0; i < n; i++ {
			l = append(l, f(fmt.Sprintf("many/f%04d", i%300)))
		}
		shapes = append(shapes, l)
		// the same with a missing entry at the front, in the middle and at the end
		if n > 2 {
			for _, pos := range []int{0, n / 2, n - 1} {
				m := append([]string{}, l...)
				m[pos] = f("gone")
				shapes = append(shapes, m)
			}
		}
	}
	return shapes
}

// worker: mc worker race <root> <reps>    (GOMAXPROCS from the environment)
func raceWorker(args []string) {
	root := args[0]
	reps, _ := strconv.Atoi(args[1])
	n := 0
	before := runtime.NumGoroutine()
	for r := 0; r < reps; r++ {
		for _, l := range raceShapes(root) {
			hash.New().Hash(l)
			n++
		}
	}
	// the same list in the hands of four callers at once (a task list shared by concurrent runs):
	// Hash only reads its argument, so the detector has nothing to say unless it writes to it
	for r := 0; r < reps; r++ {
		for _, l := range raceShapes(root) {
			var wg sync.WaitGroup
			for g := 0; g < 4; g++ {
				wg.Add(1)
				go func() {
					defer wg.Done()
					hash.New().Hash(l)
				}()
			}
			wg.Wait()
			n += 4
		}
	}
	// goroutine accounting: everything Hash started must be gone
	deadline := time.Now().Add(3 * time.Second)
	for runtime.NumGoroutine() > before && time.Now().Before(deadline) {
		time.Sleep(10 * time.Millisecond)
	}
	fmt.Printf("{\"calls\": %d, \"leaked\": %d}", n, runtime.NumGoroutine()-before)
}

func racePass(tier string) int {
	var out raceOut
	dst := os.Getenv("VERIF_SUPP_OUT")
	root := filepath.Join(pool.Scratch, "race")
	os.MkdirAll(filepath.Join(root, "many"), 0o755)
	materialiseRace(root)
	reps := 15
	if tier == "thorough" {
		reps = 150
	}
	out.Shapes = len(raceShapes(root))
	for _, procs := range []int{1, 2, 4, 16} {
		o := pool.RunWorker([]string{"race", root, strconv.Itoa(reps)}, nil, 10*time.Minute, true, "GOMAXPROCS="+strconv.Itoa(procs), "GORACE=halt_on_error=1 exitcode=66")
		out.Procs = append(out.Procs, procs)
		var r struct {
			Calls  int64 `json:"calls"`
			Leaked int   `json:"leaked"`
		}
		se := string(o.Stderr)
		switch {
		case strings.Contains(se, "DATA RACE"):
			i := strings.Index(se, "WARNING: DATA RACE")
			out.Viol = append(out.Viol, ev.Violation{Engine: "racepass", Key: "data-race GOMAXPROCS=" + strconv.Itoa(procs), Class: "data-race",
				What: fmt.Sprintf("race detector report with GOMAXPROCS=%d:\n%s", procs, firstLines(se[i:], 14)), Case: map[string]any{"gomaxprocs": procs}})
		case o.Crashed():
			out.Viol = append(out.Viol, ev.Violation{Engine: "racepass", Key: "crash GOMAXPROCS=" + strconv.Itoa(procs), Class: "process-crash-or-hang-free-running",
				What: fmt.Sprintf("free-running hashing died or hung with GOMAXPROCS=%d (exit=%d signal=%s timeout=%v): %s", procs, o.ExitCode, o.Signal, o.TimedOut, firstLines(se, 8)), Case: map[string]any{"gomaxprocs": procs}})
		default:
			if json.Unmarshal(o.Stdout, &r) == nil {
				out.Runs += r.Calls
				out.Leaks++
				if r.Leaked > 0 {
					out.Viol = append(out.Viol, ev.Violation{Engine: "racepass", Key: "leak GOMAXPROCS=" + strconv.Itoa(procs), Class: "goroutine-leak-free-running",
						What: fmt.Sprintf("%d goroutines still alive 3 s after %d Hash calls returned (GOMAXPROCS=%d)", r.Leaked, r.Calls, procs), Case: map[string]any{"gomaxprocs": procs}})
				}
			}
		}
	}
	if dst == "" {
		os.Stdout.Write(pool.MustJSON(out))
		return 0
	}
	os.WriteFile(dst, pool.MustJSON(out), 0o644)
	fmt.Printf("race pass: %d Hash calls under -race, GOMAXPROCS %v, findings=%d\n", out.Runs, out.Procs, len(out.Viol))
	return 0
}

func materialiseRace(root string) {
	os.WriteFile(filepath.Join(root, "a"), []byte("x"), 0o644)
	os.WriteFile(filepath.Join(root, "b"), []byte(strings.Repeat("y", 100000)), 0o644)
	os.MkdirAll(filepath.Join(root, "dd"), 0o755)
	os.Symlink(filepath.Join(root, "nowhere"), filepath.Join(root, "dang"))
	os.WriteFile(filepath.Join(root, "noperm"), []byte("s"), 0o000)
	os.Chmod(filepath.Join(root, "noperm"), 0o000)
	for i := 0; i < 6; i++ {
		os.WriteFile(filepath.Join(root, fmt.Sprintf("big%d", i)), []byte(strings.Repeat(fmt.Sprintf("%d-large-", i), 330000)), 0o644)
	}
	for i := 0; i < 300; i++ {
		os.WriteFile(filepath.Join(root, "many", fmt.Sprintf("f%04d", i)), []byte(fmt.Sprintf("content %d", i)), 0o644)
	}
	os.Chmod(root, 0o755)
}
