// Command mc is the verification harness: `mc <property> <quick|thorough>` runs the
// check of one property; `mc worker ...` is the crash-isolated worker side;
// `mc replay <file>` re-executes one recorded violation without the explorer.
package main

import (
	"fmt"
	"os"
	"os/signal"
	"syscall"

	"verifharness/internal/pool"
)

type checkFn func(tier string) int

var checks = map[string]checkFn{}
var workers = map[string]func(args []string){}
var replays = map[string]func(path string) int{}

func main() {
	if len(os.Args) < 2 {
		usage()
	}
	switch os.Args[1] {
	case "worker":
		if len(os.Args) < 3 {
			usage()
		}
		w, ok := workers[os.Args[2]]
		if !ok {
			fmt.Fprintf(os.Stderr, "harness error: unknown worker %q\n", os.Args[2])
			os.Exit(2)
		}
		w(os.Args[3:])
		return
	case "replay":
		if len(os.Args) < 3 {
			usage()
		}
		os.Exit(replay(os.Args[2]))
	}
	if len(os.Args) < 3 {
		usage()
	}
	fn, ok := checks[os.Args[1]]
	if !ok {
		fmt.Fprintf(os.Stderr, "harness error: no check for property %q in this binary\n", os.Args[1])
		os.Exit(2)
	}
	tier := os.Args[2]
	if tier != "quick" && tier != "thorough" {
		usage()
	}
	pool.Init()
	sig := make(chan os.Signal, 1)
	signal.Notify(sig, syscall.SIGINT, syscall.SIGTERM)
	go func() { <-sig; pool.Cleanup(); os.Exit(2) }()
	code := fn(tier)
	pool.Cleanup()
	os.Exit(code)
}

func usage() {
	fmt.Fprintln(os.Stderr, "usage: mc <property> quick|thorough | mc replay <file> | mc worker <kind> ...")
	os.Exit(2)
}
