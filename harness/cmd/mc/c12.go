package main

import (
	"encoding/json"
	"fmt"
	"os"
	"path/filepath"
	"sort"
	"strings"
	"sync"
	"syscall"

	"github.com/bmatcuk/doublestar/v4"

	"verifharness/internal/bin"
	"verifharness/internal/ev"
	"verifharness/internal/pool"
)

func init() {
	checks["C12"] = c12Check
	replays["cfgmc-c12"] = c12Replay
}

// One output declaration.
type c12Decl struct {
	ID     string `json:"id"`
	Lit    string `json:"lit,omitempty"` // literal / glob string (quoted in the spokfile)
	IsLit  bool   `json:"is_lit"`
	Var    string `json:"var,omitempty"` // variable name
	VarRHS string `json:"rhs,omitempty"` // right-hand side of the variable definition
	// reference meaning
	Rel       string `json:"rel,omitempty"`  // designated path relative to the project dir ("" with Protected=false means: nothing)
	Glob      string `json:"glob,omitempty"` // glob pattern relative to the project dir
	Protected bool   `json:"protected"`      // designates the project dir or something above it: must never be removed
}

func c12Decls() []c12Decl {
	return []c12Decl{
		{ID: "lit-file", IsLit: true, Lit: "o1", Rel: "o1"},
		{ID: "lit-dir", IsLit: true, Lit: "dir", Rel: "dir"},
		{ID: "lit-nested", IsLit: true, Lit: "dir/o2", Rel: "dir/o2"},
		{ID: "lit-bracket", IsLit: true, Lit: "o[1].txt", Rel: "o[1].txt"}, // a literal name with glob-like characters but no '*'
		{ID: "lit-question", IsLit: true, Lit: "ready?.md", Rel: "ready?.md"},
		{ID: "lit-link-into-dir", IsLit: true, Lit: "lnk", Rel: "lnk"},           // a symbolic link pointing into the output "dir"
		{ID: "lit-link-dangling", IsLit: true, Lit: "dlnk", Rel: "dlnk"},         // a dangling symbolic link
		{ID: "lit-dir-readonly-inside", IsLit: true, Lit: "rodir", Rel: "rodir"}, // holds a 0555 sub-directory with a link to a file that is no output
		{ID: "lit-file-prefix-sibling", IsLit: true, Lit: "o1.log", Rel: "o1.log"},
		{ID: "lit-dir-prefix-sibling", IsLit: true, Lit: "dir2.tar", Rel: "dir2.tar"},
		{ID: "glob-top", IsLit: true, Lit: "*.gen", Glob: "*.gen"},
		{ID: "glob-nested", IsLit: true, Lit: "gen/*.o", Glob: "gen/*.o"},
		{ID: "glob-nested-also-dep", IsLit: true, Lit: "gen/*.o", Glob: "gen/*.o"}, // the same pattern is a dependency of the task as well
		{ID: "glob-nomatch", IsLit: true, Lit: "nomatch/*", Glob: "nomatch/*"},
		{ID: "glob-hidden-dir", IsLit: true, Lit: ".cache/*.o", Glob: ".cache/*.o"}, // hidden: designates nothing, and never cache/*.o
		{ID: "glob-dot-slash", IsLit: true, Lit: "./gen/*.o", Glob: "./gen/*.o"},
		{ID: "var-rel", Var: "OUT_A", VarRHS: `"o3"`, Rel: "o3"},
		{ID: "var-rel-nested", Var: "OUT_B", VarRHS: `"sub/o4"`, Rel: "sub/o4"},
		{ID: "var-join", Var: "OUT_C", VarRHS: `join("sub", "o5")`, Rel: "sub/o5"},
		{ID: "var-abs-file", Var: "OUT_H", VarRHS: `"@PROJ@//sub/./o4"`, Rel: "sub/o4"}, // an absolute, non-canonical spelling
		{ID: "var-dollar", Var: "OUT_I", VarRHS: `"out/$arch"`, Rel: "out/$arch"},       // '$' is an ordinary character (arch=arm is in the environment)
		{ID: "lit-dollar-brace", IsLit: true, Lit: "out/${arch}.o", Rel: "out/${arch}.o"},
		{ID: "lit-tilde", IsLit: true, Lit: "~", Rel: "~"}, // a file literally named ~ (HOME is above the project)
		{ID: "var-abs-projdir-slash", Var: "OUT_J", VarRHS: `"@PROJ@/"`, Protected: true},
		{ID: "var-abs-projdir-slashes", Var: "OUT_K", VarRHS: `"@PROJ@//"`, Protected: true},
		{ID: "var-abs-projdir-dotdot", Var: "OUT_L", VarRHS: `"@PROJ@/sub/.."`, Protected: true},
		{ID: "var-abs-parent-dot", Var: "OUT_M", VarRHS: `"@PROJ@/../."`, Protected: true},
		{ID: "var-rel-back-into-proj", Var: "OUT_N", VarRHS: `"sub/../"`, Protected: true},
		{ID: "lit-empty", IsLit: true, Lit: "", Protected: true},
		{ID: "lit-dot", IsLit: true, Lit: ".", Protected: true},
		{ID: "lit-dotdot", IsLit: true, Lit: "..", Protected: true},
		{ID: "lit-dotdot-dotdot", IsLit: true, Lit: "../..", Protected: true},
		{ID: "var-empty", Var: "OUT_D", VarRHS: `""`, Protected: true},
		{ID: "var-dot", Var: "OUT_E", VarRHS: `"."`, Protected: true},
		{ID: "var-projdir", Var: "OUT_F", VarRHS: `join(".")`, Protected: true},
		{ID: "var-parent", Var: "OUT_G", VarRHS: `join("..")`, Protected: true},
		{ID: "lit-spokfile", IsLit: true, Lit: "spokfile", Protected: true},
		{ID: "glob-everything", IsLit: true, Lit: "*", Glob: "*", Protected: true},
	}
}

// the designatable paths of the project tree (bit i of the tree mask = present)
var c12Paths = []string{"o1", "dir/o2", "a.gen", "b.gen", "gen/x.o", "o3", "sub/o4", "sub/o5", "o1.log", "dir2.tar", ".cache/y.o", "cache/y.o", "o[1].txt", "o1.txt", "ready?.md", "readyX.md", "@lnk", "@dlnk", "out/$arch", "out/arm", "out/${arch}.o", "out/arm.o", "out/.o", "~", "@rodir", "@fifo", "gen/.h.o"}

// c12Relevant: indexes into c12Paths of the paths a declaration designates or could be confused with
func c12Relevant(id string) []int {
	pi := func(names ...string) []int {
		var out []int
		for _, n := range names {
			for i, p := range c12Paths {
				if p == n {
					out = append(out, i)
				}
			}
		}
		return out
	}
	switch id {
	case "lit-file", "lit-file-prefix-sibling":
		return pi("o1", "o1.log")
	case "lit-dir", "lit-nested", "lit-dir-prefix-sibling", "lit-link-into-dir":
		return pi("dir/o2", "dir2.tar", "@lnk")
	case "glob-top":
		return pi("a.gen", "b.gen")
	case "glob-nested", "glob-dot-slash", "glob-nested-also-dep":
		// gen/.h.o: a hidden file below the top level matches gen/*.o like any other (only a relative
		// path that begins with a dot is left out)
		return pi("gen/x.o", "@fifo", "gen/.h.o")
	case "glob-hidden-dir":
		return pi(".cache/y.o", "cache/y.o")
	case "var-rel":
		return pi("o3")
	case "var-rel-nested", "var-join":
		return pi("sub/o4", "sub/o5")
	case "lit-bracket":
		return pi("o[1].txt", "o1.txt")
	case "lit-question":
		return pi("ready?.md", "readyX.md")
	case "lit-link-dangling":
		return pi("@dlnk")
	case "var-abs-file":
		return pi("sub/o4", "sub/o5")
	case "var-dollar", "lit-dollar-brace":
		return pi("out/$arch", "out/arm", "out/${arch}.o", "out/arm.o", "out/.o")
	case "lit-tilde":
		return pi("~")
	case "lit-dir-readonly-inside":
		return pi("@rodir")
	}
	return nil // dangerous declarations: the whole tree is at stake, the full tree is the interesting one
}

type c12Case struct {
	Decls       []string `json:"decls"` // IDs
	Mask        int      `json:"mask"`
	CleanTask   bool     `json:"clean_task"`
	Nested      bool     `json:"nested,omitempty"`
	SpokLink    bool     `json:"spok_link,omitempty"`    // the project's spokfile is a symbolic link to a file in another directory
	Cache       string   `json:"cache,omitempty"`        // state of .spok: "" directory with cache.json | "no-json" | "absent" | "dangling" (cache.json is a dangling link) | "extra" (further files in it)
	BrokenClean bool     `json:"broken_clean,omitempty"` // a task named clean exists but depends on an undefined task
	DotsParent  bool     `json:"dots_parent,omitempty"`  // the directory above the project is called "..w"
	CleanArgs   bool     `json:"clean_args,omitempty"`   // task names are given next to --clean (they change nothing)
}

func c12DeclByID(id string) c12Decl {
	for _, d := range c12Decls() {
		if d.ID == id {
			return d
		}
	}
	return c12Decl{}
}

func (c c12Case) text() string {
	var sb strings.Builder
	var outs []string
	for _, id := range c.Decls {
		d := c12DeclByID(id)
		if d.IsLit {
			outs = append(outs, `"`+d.Lit+`"`)
		} else {
			fmt.Fprintf(&sb, "%s := %s\n", d.Var, d.VarRHS)
			outs = append(outs, d.Var)
		}
	}
	alsoDep := ""
	for _, id := range c.Decls {
		if id == "glob-nested-also-dep" {
			alsoDep = ", \"gen/*.o\""
		}
	}
	sb.WriteString("\n# Builds things\ntask build(\"src.txt\"" + alsoDep + ")")
	switch len(outs) {
	case 0:
	case 1:
		sb.WriteString(" -> " + outs[0])
	default:
		// second output declared by a second task so that both forms are covered
		sb.WriteString(" -> " + outs[0])
	}
	sb.WriteString(" {\n    echo build >> \"$VLOG\"\n}\n\n")
	if len(outs) > 1 {
		fmt.Fprintf(&sb, "task pack(build) -> (%s) {\n    echo pack >> \"$VLOG\"\n}\n\n", strings.Join(outs[1:], ", "))
	}
	if c.BrokenClean {
		sb.WriteString("# User clean\ntask clean(nosuchtask) {\n    echo cleaned >> \"$VLOG\"\n}\n")
	}
	if c.CleanTask {
		sb.WriteString("# User clean\ntask clean() {\n    echo cleaned >> \"$VLOG\"\n}\n")
	}
	return sb.String()
}

func c12Cases(tier string) []c12Case {
	decls := c12Decls()
	var sets [][]string
	sets = append(sets, []string{})
	for i := range decls {
		sets = append(sets, []string{decls[i].ID})
	}
	for i := range decls {
		for j := range decls {
			if i != j && (i < j || tier == "thorough") {
				sets = append(sets, []string{decls[i].ID, decls[j].ID})
			}
		}
	}
	if tier == "thorough" {
		// every set of three harmless (non-dangerous) declarations as well
		var safe []string
		for _, d := range decls {
			if !d.Protected {
				safe = append(safe, d.ID)
			}
		}
		for i := range safe {
			for j := i + 1; j < len(safe); j++ {
				for k := j + 1; k < len(safe); k++ {
					sets = append(sets, []string{safe[i], safe[j], safe[k]})
				}
			}
		}
	}
	full := 1<<len(c12Paths) - 1
	masks := []int{full, 0}
	for i := range c12Paths {
		masks = append(masks, 1<<i)
	}
	var out []c12Case
	for _, s := range sets {
		masks := masks
		if tier == "thorough" {
			// every subset of the paths the declarations of this set can touch (designated ones and
			// their look-alikes) is absent in turn, all other paths present
			rel := map[int]bool{}
			for _, id := range s {
				for _, i := range c12Relevant(id) {
					rel[i] = true
				}
			}
			var idx []int
			for i := range c12Paths {
				if rel[i] {
					idx = append(idx, i)
				}
			}
			masks = nil
			for sub := 0; sub < 1<<len(idx); sub++ {
				m := full
				for k, i := range idx {
					if sub&(1<<k) != 0 {
						m &^= 1 << i
					}
				}
				masks = append(masks, m)
			}
			masks = append(masks, 0)
		}
		for _, m := range masks {
			for _, ct := range []bool{false, true} {
				if ct && m != full && tier != "thorough" {
					continue
				}
				out = append(out, c12Case{Decls: s, Mask: m, CleanTask: ct})
			}
		}
		// other states of the cache directory, and a clean task that cannot run
		for _, cs := range []string{"no-json", "absent", "dangling", "extra"} {
			out = append(out, c12Case{Decls: s, Mask: full, Cache: cs})
		}
		out = append(out, c12Case{Decls: s, Mask: full, BrokenClean: true})
		// a parent directory whose name starts with two dots; task names given next to --clean
		out = append(out, c12Case{Decls: s, Mask: full, DotsParent: true}, c12Case{Decls: s, Mask: full, CleanArgs: true})
		// the same with a symlinked spokfile, and invoked from a sub-directory of the project, for the full tree
		out = append(out, c12Case{Decls: s, Mask: full, SpokLink: true})
		joinRelative := false
		for _, id := range s {
			if d := c12DeclByID(id); strings.Contains(d.VarRHS, "join(") {
				joinRelative = true // join() is defined relative to the working directory: not comparable from elsewhere
			}
		}
		if !joinRelative {
			out = append(out, c12Case{Decls: s, Mask: full, Nested: true})
		}
	}
	return out
}

type c12Obs struct{ cls, what string }

func c12Run(root string, c c12Case) (obs []c12Obs, outcome string) {
	t := bin.Tree{Root: root}
	t.Reset()
	projRel := "home/w/proj"
	if c.DotsParent {
		projRel = "home/..w/proj"
	}
	proj := t.Mkdir(projRel)
	ctl := t.Mkdir("ctl")
	home := filepath.Join(root, "home")
	t.File("home/other.txt", "other\n")
	t.File(filepath.Dir(projRel)+"/sibling.txt", "sibling\n")
	if c.SpokLink {
		t.File("home/shared/spokfile", strings.ReplaceAll(c.text(), "@PROJ@", proj))
		os.Symlink(filepath.Join(root, "home/shared/spokfile"), filepath.Join(proj, "spokfile"))
		os.Lchown(filepath.Join(proj, "spokfile"), 65534, 65534)
	} else {
		t.File(projRel+"/spokfile", strings.ReplaceAll(c.text(), "@PROJ@", proj))
	}
	t.File(projRel+"/src.txt", "src\n")
	t.File(projRel+"/keep.txt", "keep\n")
	t.File(projRel+"/gen/keep.txt", "keep\n")
	t.File(projRel+"/dir/keep", "keep\n")
	t.File(projRel+"/sub/keep", "keep\n")
	t.File(projRel+"/out/keep", "keep\n")
	switch c.Cache {
	case "absent":
	case "no-json":
		t.File(projRel+"/.spok/.gitignore", "*\n")
	case "dangling":
		t.File(projRel+"/.spok/.gitignore", "*\n")
		os.Symlink(filepath.Join(proj, "nowhere.json"), filepath.Join(proj, ".spok/cache.json"))
		os.Lchown(filepath.Join(proj, ".spok/cache.json"), 65534, 65534)
	case "extra":
		t.File(projRel+"/.spok/cache.json", `{"build":""}`)
		t.File(projRel+"/.spok/.gitignore", "*\n")
		t.File(projRel+"/.spok/CACHEDIR.TAG", "Signature: 8a477f597d28d172789f06886806bc55\n")
		t.File(projRel+"/.spok/sub/other", "x\n")
	default:
		t.File(projRel+"/.spok/cache.json", `{"build":""}`)
		t.File(projRel+"/.spok/.gitignore", "*\n")
	}
	unremovable := false
	for i, p := range c12Paths {
		if c.Mask&(1<<i) != 0 {
			switch p {
			case "@lnk":
				os.Symlink(filepath.Join(proj, "dir", "o2"), filepath.Join(proj, "lnk"))
				os.Lchown(filepath.Join(proj, "lnk"), 65534, 65534)
			case "@fifo":
				// a named pipe matching the nested glob
				os.MkdirAll(filepath.Join(proj, "gen"), 0o755)
				syscall.Mkfifo(filepath.Join(proj, "gen/pipe.o"), 0o644)
				os.Lchown(filepath.Join(proj, "gen/pipe.o"), 65534, 65534)
			case "@rodir":
				// rodir/locked (0555) holds a file and a symbolic link to keep.txt: as nobody, removal of its
				// entries is refused by the system; whatever spok does about that, keep.txt is not its business
				t.File(projRel+"/rodir/locked/f.txt", "generated\n")
				os.Symlink(filepath.Join(proj, "keep.txt"), filepath.Join(proj, "rodir/locked/lnk"))
				os.Lchown(filepath.Join(proj, "rodir/locked/lnk"), 65534, 65534)
				os.Chmod(filepath.Join(proj, "keep.txt"), 0o640)
				os.Chmod(filepath.Join(proj, "rodir/locked"), 0o555)
				unremovable = true
			case "@dlnk":
				os.Symlink(filepath.Join(proj, "nowhere"), filepath.Join(proj, "dlnk"))
				os.Lchown(filepath.Join(proj, "dlnk"), 65534, 65534)
			default:
				t.File(projRel+"/"+p, "generated "+p+"\n")
			}
		}
	}
	vlog := filepath.Join(ctl, "vlog")
	var before bin.Snapshot
	cwd := proj
	if c.Nested {
		cwd = t.Mkdir(projRel + "/keepdir/inner")
		t.File(projRel+"/keepdir/inner/o1", "same name as an output, elsewhere\n")
		t.File(projRel+"/keepdir/inner/a.gen", "same name as a glob match, elsewhere\n")
	}
	before = bin.Snap(root)
	cleanArgs := []string{"--clean"}
	if c.CleanArgs {
		cleanArgs = []string{"--clean", "build"}
		if len(c.Decls) > 1 {
			cleanArgs = []string{"pack", "--clean"}
		}
	}
	o := bin.Run(cwd, home, []string{"VLOG=" + vlog, "VCTL=" + ctl, "arch=arm"}, cleanArgs...)
	after := bin.Snap(root)
	outcome = fmt.Sprintf("exit%d", o.Exit)
	if o.Died() {
		return []c12Obs{{"process-died", fmt.Sprintf("signal=%s timeout=%v %s", o.Signal, o.TimedOut, firstLines(o.Stderr, 3))}}, "died"
	}
	removed, added, changed := bin.Diff(before, after)
	if c.BrokenClean {
		// the user's clean task cannot run (undefined dependency): an error, and spok itself removes nothing
		if o.Exit == 0 {
			obs = append(obs, c12Obs{"broken-clean-task-ignored", fmt.Sprintf("a task named clean exists but depends on an undefined task; --clean exited 0: %s", firstLines(o.Stdout, 2))})
		}
		for _, p := range removed {
			obs = append(obs, c12Obs{"removed-although-clean-task-exists", fmt.Sprintf("%s was removed although a task named clean exists (it cannot run: undefined dependency)", p)})
			if len(obs) > 4 {
				break
			}
		}
		return
	}
	// reference: what may / must be removed
	expected := map[string]bool{}
	under := func(rel string) {
		base := projRel + "/" + rel
		for p := range before {
			if p == base || strings.HasPrefix(p, base+"/") {
				expected[p] = true
			}
		}
	}
	anyProtected := false
	unremovableDeclared := false
	for _, id := range c.Decls {
		if id == "lit-dir-readonly-inside" && unremovable {
			unremovableDeclared = true
		}
	}
	if !c.CleanTask {
		under(".spok")
		for _, id := range c.Decls {
			d := c12DeclByID(id)
			switch {
			case d.Protected:
				anyProtected = true
			case d.Glob != "":
				for p := range before {
					if !strings.HasPrefix(p, projRel+"/") {
						continue
					}
					rel := strings.TrimPrefix(p, projRel+"/")
					if strings.HasPrefix(rel, ".") {
						continue
					}
					if ok, _ := doublestar.Match(d.Glob, rel); ok {
						under(rel)
					}
				}
			case d.Rel != "":
				under(d.Rel)
			}
		}
	}
	for _, p := range removed {
		if !expected[p] {
			cls := "removed-undeclared-path"
			if p == projRel || p == projRel+"/spokfile" || strings.HasPrefix(projRel, p) {
				cls = "removed-project-or-above"
			}
			obs = append(obs, c12Obs{cls, fmt.Sprintf("%s was removed although no output designates it (outputs %v)", p, c.Decls)})
			if len(obs) > 4 {
				break
			}
		}
	}
	for _, p := range added {
		if p == "ctl/vlog" {
			continue // the harness's own log
		}
		if c.CleanTask && (p == projRel+"/.spok" || strings.HasPrefix(p, projRel+"/.spok/")) {
			continue
		}
		obs = append(obs, c12Obs{"path-created", fmt.Sprintf("%s was created by --clean", p)})
	}
	for _, p := range changed {
		if c.CleanTask && strings.HasPrefix(p, projRel+"/.spok/") {
			continue
		}
		obs = append(obs, c12Obs{"path-modified", fmt.Sprintf("%s was modified by --clean", p)})
	}
	if c.CleanTask {
		log := readLog(vlog)
		if strings.Join(log, ",") != "cleaned" {
			obs = append(obs, c12Obs{"clean-task-not-run", fmt.Sprintf("a task named clean exists but the commands executed were %v (exit %d)", log, o.Exit)})
		}
		return
	}
	if l := readLog(vlog); len(l) > 0 {
		obs = append(obs, c12Obs{"clean-ran-tasks", fmt.Sprintf("--clean executed task commands %v", l)})
	}
	if o.Exit == 0 {
		var left []string
		rm := map[string]bool{}
		for _, p := range removed {
			rm[p] = true
		}
		for p := range expected {
			if !rm[p] {
				left = append(left, p)
			}
		}
		sort.Strings(left)
		if len(left) > 0 {
			obs = append(obs, c12Obs{"declared-output-not-removed", fmt.Sprintf("--clean exited 0 but left %v (outputs %v)", left, c.Decls)})
		}
	} else if unremovableDeclared {
		// the system refused a removal: a failure is an answer (what must not happen was checked above)
	} else if !anyProtected {
		obs = append(obs, c12Obs{"clean-failed", fmt.Sprintf("--clean exited %d with harmless outputs %v: %s", o.Exit, c.Decls, firstLines(o.Stderr, 2))})
	}
	return
}

var c12SlotMu [64]sync.Mutex

func c12Check(tier string) int {
	run := ev.NewRun("C12", tier, "model_checking", "cfgmc-c12")
	cases := c12Cases(tier)
	var mu sync.Mutex
	outcomes := map[string]int64{}
	var nontriv int64
	pool.Parallel(len(cases), func(i int) {
		slot := i % 64
		c12SlotMu[slot].Lock()
		root := filepath.Join(pool.Scratch, fmt.Sprintf("c12.%d", slot))
		os.MkdirAll(root, 0o755)
		obs, outcome := c12Run(root, cases[i])
		c12SlotMu[slot].Unlock()
		mu.Lock()
		outcomes[outcome]++
		if len(cases[i].Decls) > 0 {
			nontriv++
		}
		for _, o := range obs {
			outcomes["violation:"+o.cls]++
		}
		mu.Unlock()
		for _, o := range obs {
			var m map[string]any
			json.Unmarshal(pool.MustJSON(cases[i]), &m)
			run.Report(ev.Violation{Key: string(pool.MustJSON(cases[i])) + " " + o.cls, Class: o.cls, What: fmt.Sprintf("outputs %v, tree mask %d, clean task=%v: %s", cases[i].Decls, cases[i].Mask, cases[i].CleanTask, o.what), Case: m})
		}
		if i%401 == 11 {
			run.Sample(map[string]any{"case": cases[i], "spokfile": cases[i].text()})
		}
	})
	run.Set("states", int64(len(cases)))
	run.Set("transitions", int64(len(cases)))
	run.Set("traces_validated_against_impl", int64(len(cases)))
	run.Set("evaluations", int64(len(cases)))
	run.Set("distinct_nontrivial", nontriv)
	run.Set("outcomes", outcomes)
	run.Set("rule", "full product: every set of <=2 output declarations over 16 kinds (literal file / directory / nested file, globs matching top-level, nested and nothing, variables holding a relative path, a nested path, a join(...) absolute path, and the dangerous values \"\", \".\", \"..\", variables holding \"\", \".\", the project directory and its parent) x project trees (all designated paths present, none, each one alone; thorough: all 256 subsets and ordered pairs) x with/without a user task named clean; each an invocation of `spok --clean` from the project root between two recursive snapshots of the whole sandbox; non-trivial = at least one output declared")
	run.Assumes("relative output paths and variables designate paths below the spokfile directory (cwd = project root in every run)", "doublestar.Match is the meaning of an output glob")
	return run.Finish()
}

func c12Replay(path string) int {
	var v ev.Violation
	data, _ := os.ReadFile(path)
	json.Unmarshal(data, &v)
	var c c12Case
	json.Unmarshal(pool.MustJSON(v.Case), &c)
	root := filepath.Join(pool.Scratch, "replay")
	os.MkdirAll(root, 0o755)
	fmt.Printf("replaying C12: %+v\n%s", c, c.text())
	obs, outcome := c12Run(root, c)
	fmt.Println("outcome:", outcome)
	for _, o := range obs {
		fmt.Printf("  %s: %s\n", o.cls, o.what)
	}
	if len(obs) > 0 {
		fmt.Printf("VIOLATION property=C12 replay=%s\n", path)
		return 1
	}
	fmt.Println("no violation on replay")
	return 0
}
