package main

import (
	"encoding/json"
	"fmt"
	"os"
	"path/filepath"
	"strings"
	"sync"

	"verifharness/internal/bin"
	"verifharness/internal/ev"
	"verifharness/internal/pool"
)

func init() {
	checks["C19"] = c19Check
	replays["cfgmc-c19"] = c19Replay
}

type c19Case struct {
	Class      string   `json:"class"`  // spokfile class
	Action     []string `json:"action"` // command line
	Nested     bool     `json:"nested"`
	GitIgnore  bool     `json:"gitignore"`             // a .gitignore already exists in cwd
	Messy      bool     `json:"messy"`                 // the valid spokfile is not in canonical format
	PreCache   bool     `json:"precache"`              // a .spok cache from an earlier run exists
	IgnoreVar  int      `json:"ignore_var,omitempty"`  // which existing .gitignore text (c19Ignores)
	SpokMode   int      `json:"spok_mode,omitempty"`   // permission bits of the spokfile (0: 0644)
	Umask      int      `json:"umask,omitempty"`       // file mode creation mask of the spok process (0: 022)
	CacheBlock string   `json:"cache_block,omitempty"` // the cache directory cannot be created: "file" (.spok is a regular file) | "rodir" (project directory not writable)
	Partial    bool     `json:"partial,omitempty"`     // with PreCache: the cache file is there, the .gitignore and tag beside it are not
	VCSAbove   bool     `json:"vcs_above,omitempty"`   // the directory above the project (and the project itself) is the top of a git work tree with its own .gitignore
}

var c19Ignores = []string{"node_modules/\n*.log", "a\r\nb\r\n", "a\n\n\n", "trail\\ \n", "x\n.spok/\n", "\n", " \t\n"}

var c19Classes = []string{"unknown-template-func", "failing-task-with-outputs", "valid", "valid-no-tasks", "syntax-error", "duplicate-task", "unknown-builtin", "failing-exec", "absent", "directory", "ident-rhs", "symlink", "dangling-symlink"}

func c19Text(class string, messy bool) (string, bool) {
	valid := "# Project\nNAME := \"proj\"\n\n# Builds\ntask t(\"a.txt\", \"sub/*.txt\") {\n    echo building {{.NAME}}\n}\n\n# Other\ntask u(t) {\n    echo done\n}\n\n"
	if messy {
		valid = "#Project\nNAME:=\"proj\"\n\n\n#   Builds\ntask   t( \"a.txt\" ,\"sub/*.txt\" ){ echo building {{.NAME}} }\n# Other\ntask u(t)\n{\n\techo done\n}"
		valid = strings.Replace(valid, "task u(t)\n{", "task u(t) {", 1)
	}
	switch class {
	case "valid":
		return valid, true
	case "valid-no-tasks":
		return "# Only variables\nNAME := \"proj\"\nBIN := join(\"bin\", \"x\")\n", true
	case "syntax-error":
		return valid + "task broken( {\n", false
	case "duplicate-task":
		return valid + "task t() {\n    echo again\n}\n", false
	case "unknown-builtin":
		return "X := nosuchbuiltin(\"a\")\n" + valid, false
	case "failing-exec":
		return "X := exec(\"exit 3\")\n" + valid, false
	case "ident-rhs":
		return "X := NAME\n" + valid, false // parses, but does not load
	case "symlink":
		return valid, true
	case "unknown-template-func":
		// parses, but does not load: the command calls a template function that does not exist (written unformatted)
		return "NAME:=\"proj\"\ntask   t( \"a.txt\" ){ echo {{nosuchfunc .NAME}} }\ntask u(t) {\n\techo done\n}", false
	case "failing-task-with-outputs":
		// the outputs exist already (the harness wrote them a moment ago); the command fails without touching anything
		return "OUTV := \"outv.txt\"\n\n# Builds\ntask t(\"a.txt\") -> (\"out.txt\", OUTV, \"gen/*.o\") {\n    echo before\n    false\n}\n\n# Other\ntask u(t) {\n    echo done\n}\n\n", true
	}
	return "", false
}

func c19Cases(tier string) []c19Case {
	var out []c19Case
	actions := [][]string{{}, {"t"}, {"u"}, {"--show"}, {"--vars"}, {"--fmt"}, {"--init"}, {"--force", "t"}, {"--quiet", "t"}, {"--json", "t"}, {"--debug", "t"}, {"t", "u", "--json"}, {"nosuchtask"}, {"--fmt", "--quiet"}, {"--spokfile", "spokfile", "--show"},
		{"--help"}, {"--version"}, {"-h"}, {"--show", "--vars"}, {"--vars", "t"}, {"--spokfile", "Spokfile", "--fmt"}, {"--spokfile", "Spokfile", "--show"}, {"--spokfile", "other/spokfile", "t"},
		{"--init", "--spokfile", "Spokfile"}, {"--spokfile", "Spokfile", "--init"}, {"--init", "--spokfile", "other/spokfile"}, {"--init", "--quiet"}, {"--init", "t"}}
	for _, cl := range c19Classes {
		for _, a := range actions {
			for _, nested := range []bool{false, true} {
				for _, gi := range []bool{false, true} {
					for _, pre := range []bool{false, true} {
						if pre && (cl == "absent" || cl == "directory" || cl == "dangling-symlink") {
							continue
						}
						for _, messy := range []bool{false, true} {
							if messy && cl != "valid" {
								continue
							}
							if tier != "thorough" && gi && len(a) > 0 && a[0] != "--init" && a[0] != "--fmt" {
								continue
							}
							out = append(out, c19Case{Class: cl, Action: a, Nested: nested, GitIgnore: gi, Messy: messy, PreCache: pre})
						}
					}
				}
			}
		}
	}
	// --init next to a .gitignore that does not end in exactly one LF
	for iv := 1; iv < len(c19Ignores); iv++ {
		for _, cl := range []string{"absent", "valid"} {
			for _, nested := range []bool{false, true} {
				out = append(out, c19Case{Class: cl, Action: []string{"--init"}, Nested: nested, GitIgnore: true, IgnoreVar: iv})
			}
		}
	}
	// permission bits of the spokfile x umask of the process: --fmt rewrites the text and nothing else
	for _, cl := range []string{"valid", "symlink"} {
		for _, mode := range []int{0o664, 0o600, 0o666, 0o755, 0o640} {
			for _, um := range []int{0o022, 0o077, 0o002} {
				for _, a := range [][]string{{"--fmt"}, {"--fmt", "--quiet"}, {"t"}} {
					for _, messy := range []bool{false, true} {
						if messy && cl != "valid" {
							continue
						}
						out = append(out, c19Case{Class: cl, Action: a, Messy: messy, SpokMode: mode, Umask: um})
					}
				}
			}
		}
	}
	// a cache directory that is only partly there (the cache file without the .gitignore beside it) and
	// the project as a sub-directory of a git work tree: whatever spok completes or appends to is in
	// .spok or, for --init, in the working directory - never a file of the same name elsewhere
	for _, cl := range []string{"valid", "absent"} {
		for _, a := range actions {
			for _, nested := range []bool{false, true} {
				for _, gi := range []bool{false, true} {
					out = append(out, c19Case{Class: cl, Action: a, Nested: nested, GitIgnore: gi, PreCache: cl == "valid", Partial: cl == "valid", VCSAbove: true})
				}
			}
		}
	}
	// the cache directory cannot be created: an error, and nothing is written anywhere else (HOME is in the sandbox)
	for _, blk := range []string{"file", "rodir"} {
		for _, a := range actions {
			for _, nested := range []bool{false, true} {
				out = append(out, c19Case{Class: "valid", Action: a, Nested: nested, CacheBlock: blk})
			}
		}
	}
	return out
}

type c19Obs struct{ cls, what string }

func c19Run(root string, c c19Case) (obs []c19Obs, outcome string) {
	t := bin.Tree{Root: root}
	t.Reset()
	proj := t.Mkdir("home/w/proj")
	home := filepath.Join(root, "home")
	t.File("home/other.txt", "other\n")
	t.File("home/w/sibling.txt", "sibling\n")
	t.File("outside.txt", "outside\n")
	t.File("home/w/proj/a.txt", "a\n")
	// files that editors, patch and merge tools leave next to a spokfile
	for _, n := range []string{"spokfile.orig", "spokfile.bak", "spokfile~", ".spokfile.swp", "spokfile.tmp", "spokfile.rej"} {
		t.File("home/w/proj/"+n, "not spok's business: "+n+"\n")
	}
	t.File("home/w/proj/out.txt", "built earlier\n")
	t.File("home/w/proj/outv.txt", "built earlier\n")
	t.File("home/w/proj/gen/x.o", "built earlier\n")
	t.File("home/w/proj/sub/b.txt", "b\n")
	t.File("home/w/proj/.hidden", "h\n")
	t.Mkdir("home/w/proj/nest/deeper")
	t.File("home/w/proj/nest/deeper/n.txt", "n\n")
	// a differently cased sibling of the spokfile, and a second project directory
	messy, _ := c19Text("valid", true)
	t.File("home/w/proj/Spokfile", messy)
	t.File("home/w/proj/nest/deeper/Spokfile", messy)
	t.File("home/w/proj/other/spokfile", "task t() {\n    echo other\n}\n")
	t.File("home/w/proj/nest/deeper/other/spokfile", "task t() {\n    echo other\n}\n")
	text, loads := c19Text(c.Class, c.Messy)
	switch c.Class {
	case "absent":
	case "directory":
		t.Mkdir("home/w/proj/spokfile")
		t.File("home/w/proj/spokfile/inner.txt", "x\n")
	case "symlink":
		// the project's spokfile is a link to one shared between projects
		vt, _ := c19Text("valid", false)
		t.File("home/shared/spokfile", vt)
		os.Symlink(filepath.Join(root, "home/shared/spokfile"), filepath.Join(proj, "spokfile"))
		os.Lchown(filepath.Join(proj, "spokfile"), 65534, 65534)
	case "dangling-symlink":
		os.Symlink(filepath.Join(root, "home/shared/nowhere"), filepath.Join(proj, "spokfile"))
		os.Lchown(filepath.Join(proj, "spokfile"), 65534, 65534)
	default:
		t.File("home/w/proj/spokfile", text)
	}
	if c.PreCache {
		t.File("home/w/proj/.spok/cache.json", `{"t":"","u":""}`)
		if !c.Partial {
			t.File("home/w/proj/.spok/.gitignore", "*\n")
		}
	}
	if c.VCSAbove {
		t.File("home/w/.git/HEAD", "ref: refs/heads/main\n")
		t.File("home/w/.gitignore", "# the repository's own\n/dist\n")
		t.File("home/.git/HEAD", "ref: refs/heads/main\n")
	}
	cwd := proj
	cwdRel := "home/w/proj"
	if c.Nested {
		cwd = filepath.Join(proj, "nest", "deeper")
		cwdRel = "home/w/proj/nest/deeper"
	}
	linkClass := c.Class == "symlink" || c.Class == "dangling-symlink"
	oldIgnore := ""
	if c.GitIgnore {
		oldIgnore = c19Ignores[c.IgnoreVar]
		t.File(cwdRel+"/.gitignore", oldIgnore)
	}
	if c.SpokMode != 0 {
		target := filepath.Join(proj, "spokfile")
		if c.Class == "symlink" {
			target = filepath.Join(root, "home/shared/spokfile")
		}
		os.Chmod(target, os.FileMode(c.SpokMode))
	}
	switch c.CacheBlock {
	case "file":
		t.File("home/w/proj/.spok", "not a directory\n")
	case "rodir":
		os.Chmod(proj, 0o555)
	}
	umask := -1
	if c.Umask != 0 {
		umask = c.Umask
	}
	before := bin.Snap(root)
	o := bin.RunUmask(cwd, home, nil, umask, c.Action...)
	after := bin.Snap(root)
	if c.CacheBlock == "rodir" {
		os.Chmod(proj, 0o755)
	}
	outcome = fmt.Sprintf("exit%d", o.Exit)
	if o.Died() {
		return []c19Obs{{"process-died", fmt.Sprintf("signal=%s timeout=%v %s", o.Signal, o.TimedOut, firstLines(o.Stderr, 3))}}, "died"
	}
	removed, added, changed := bin.Diff(before, after)
	isInit := false
	for _, a := range c.Action {
		if a == "--init" {
			isInit = true
		}
	}
	isFmt := len(c.Action) > 0 && c.Action[0] == "--fmt"
	spokDir := "home/w/proj/.spok"
	if len(c.Action) >= 2 && c.Action[0] == "--spokfile" && strings.HasPrefix(c.Action[1], "other/") {
		spokDir = cwdRel + "/other/.spok"
	}
	allowed := func(p string) bool {
		if isInit {
			// --init happens before any spokfile is looked for: only cwd/spokfile (new) and cwd/.gitignore
			return false
		}
		if strings.HasSuffix(spokDir, "/other/.spok") {
			return p == spokDir || strings.HasPrefix(p, spokDir+"/")
		}
		if c.Class == "dangling-symlink" {
			return false
		}
		return c.Class != "absent" && c.Class != "directory" && (p == spokDir || strings.HasPrefix(p, spokDir+"/"))
	}
	for _, p := range removed {
		obs = append(obs, c19Obs{"path-removed", fmt.Sprintf("%s was removed", p)})
	}
	for _, p := range added {
		switch {
		case allowed(p):
		case isInit && p == cwdRel+"/spokfile":
			if _, existed := before[cwdRel+"/spokfile"]; existed {
				obs = append(obs, c19Obs{"init-overwrote", "spokfile replaced"})
			}
		case isInit && p == cwdRel+"/.gitignore":
		default:
			obs = append(obs, c19Obs{"path-created-outside-cache", fmt.Sprintf("%s was created", p)})
		}
	}
	for _, p := range changed {
		switch {
		case allowed(p):
		case p == "home/w/proj" || (isInit && p == cwdRel):
			// directory entry itself (mode unchanged is part of Entry; mtime is not compared)
			obs = append(obs, c19Obs{"path-changed", fmt.Sprintf("directory %s changed mode", p)})
		case isFmt && c.Class == "symlink" && p == "home/shared/spokfile":
			// formatting through the link rewrites the file it points to
			if before[p].Mode != after[p].Mode || after[p].Kind != "file" {
				obs = append(obs, c19Obs{"fmt-changed-mode", fmt.Sprintf("--fmt changed the spokfile from %s %04o to %s %04o", before[p].Kind, before[p].Mode, after[p].Kind, after[p].Mode)})
			}
		case isFmt && p == "home/w/proj/spokfile":
			if before[p].Mode != after[p].Mode || before[p].Kind != after[p].Kind {
				obs = append(obs, c19Obs{"fmt-changed-mode", fmt.Sprintf("--fmt changed the spokfile from %s %04o to %s %04o", before[p].Kind, before[p].Mode, after[p].Kind, after[p].Mode)})
			}
			if !loads {
				obs = append(obs, c19Obs{"fmt-rewrote-invalid-spokfile", fmt.Sprintf("--fmt rewrote a spokfile of class %s (exit %d)", c.Class, o.Exit)})
			}
		case isInit && p == cwdRel+"/.gitignore":
			nb, _ := os.ReadFile(filepath.Join(cwd, ".gitignore"))
			if !strings.HasPrefix(string(nb), oldIgnore) {
				obs = append(obs, c19Obs{"gitignore-not-appended", fmt.Sprintf(".gitignore was %q, now %q", oldIgnore, clip(string(nb)))})
			}
		default:
			obs = append(obs, c19Obs{"path-changed", fmt.Sprintf("%s was modified (class %s, action %v)", p, c.Class, c.Action)})
		}
	}
	// --init must refuse when cwd already has a spokfile, and must create one otherwise
	if isInit {
		_, existed := before[cwdRel+"/spokfile"]
		_ = linkClass
		if existed && o.Exit == 0 {
			obs = append(obs, c19Obs{"init-did-not-refuse", "a spokfile already exists in the working directory but --init exited 0"})
		}
		if !existed {
			if e, ok := after[cwdRel+"/spokfile"]; !ok || e.Kind != "file" {
				obs = append(obs, c19Obs{"init-created-nothing", fmt.Sprintf("--init in a directory without spokfile created none (exit %d): %s", o.Exit, firstLines(o.Stderr, 2))})
			}
		}
	}
	if isFmt && loads && o.Exit == 0 && c.Messy {
		if len(changed) == 0 {
			obs = append(obs, c19Obs{"fmt-did-nothing", "--fmt exited 0 on an unformatted, valid spokfile but the file is unchanged"})
		}
	}
	return
}

var c19SlotMu [64]sync.Mutex

func c19Check(tier string) int {
	run := ev.NewRun("C19", tier, "model_checking", "cfgmc-c19")
	cases := c19Cases(tier)
	var mu sync.Mutex
	outcomes := map[string]int64{}
	var nontriv int64
	pool.Parallel(len(cases), func(i int) {
		slot := i % 64
		c19SlotMu[slot].Lock()
		root := filepath.Join(pool.Scratch, fmt.Sprintf("c19.%d", slot))
		os.MkdirAll(root, 0o755)
		obs, outcome := c19Run(root, cases[i])
		c19SlotMu[slot].Unlock()
		mu.Lock()
		outcomes[outcome]++
		if outcome == "exit0" {
			nontriv++
		}
		for _, o := range obs {
			outcomes["violation:"+o.cls]++
		}
		mu.Unlock()
		for _, o := range obs {
			var m map[string]any
			json.Unmarshal(pool.MustJSON(cases[i]), &m)
			run.Report(ev.Violation{Key: string(pool.MustJSON(cases[i])) + " " + o.cls, Class: o.cls, What: fmt.Sprintf("spokfile class %s, `spok %s`, nested cwd=%v, .gitignore=%v: %s", cases[i].Class, strings.Join(cases[i].Action, " "), cases[i].Nested, cases[i].GitIgnore, o.what), Case: m})
		}
		if i%131 == 9 {
			run.Sample(cases[i])
		}
	})
	run.Set("states", int64(len(cases)))
	run.Set("transitions", int64(len(cases)))
	run.Set("traces_validated_against_impl", int64(len(cases)))
	run.Set("evaluations", int64(len(cases)))
	run.Set("distinct_nontrivial", nontriv)
	run.Set("outcomes", outcomes)
	run.Set("rule", "full product: spokfile class {valid canonical, valid unformatted, variables only, syntax error, duplicate task, unknown builtin, failing exec, identifier value (parses but does not load), absent, a directory named spokfile} x action {none, t, u, --show, --vars, --fmt, --init, --force t, --quiet t, --json t, --debug t, t u --json, unknown task, --fmt --quiet, --spokfile} x cwd {project root, nested} x .gitignore present/absent x earlier cache present/absent; each an invocation of the built binary between two recursive snapshots (path, type, mode, content hash) of the whole sandbox incl. HOME and directories above the project; non-trivial = invocations that exit 0")
	run.Assumes("task commands of the valid spokfile have no side effects (echo)", "timestamps are not part of a snapshot")
	return run.Finish()
}

func c19Replay(path string) int {
	var v ev.Violation
	data, _ := os.ReadFile(path)
	json.Unmarshal(data, &v)
	var c c19Case
	json.Unmarshal(pool.MustJSON(v.Case), &c)
	root := filepath.Join(pool.Scratch, "replay")
	os.MkdirAll(root, 0o755)
	fmt.Printf("replaying C19: %+v\n", c)
	obs, outcome := c19Run(root, c)
	fmt.Println("outcome:", outcome)
	for _, o := range obs {
		fmt.Printf("  %s: %s\n", o.cls, o.what)
	}
	if len(obs) > 0 {
		fmt.Printf("VIOLATION property=C19 replay=%s\n", path)
		return 1
	}
	fmt.Println("no violation on replay")
	return 0
}
