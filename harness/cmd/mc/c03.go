package main

import (
	"encoding/json"
	"fmt"
	"math/bits"
	"os"
	"path/filepath"
	"sort"
	"strconv"
	"strings"
	"sync"

	"verifharness/internal/bin"
	"verifharness/internal/choose"
	"verifharness/internal/ev"
	"verifharness/internal/pool"
	"verifharness/internal/proj"
)

func init() {
	checks["C03"] = c03Check
	workers["c03"] = c03Worker
	replays["cfgmc-c03"] = c03Replay
}

// gspec is one task graph: Deps[i] lists the names task i depends on (may name
// undefined tasks); Dup duplicates the definition of task 0.
type gspec struct {
	Names  []string   `json:"names"`
	Deps   [][]string `json:"deps"`
	Dup    bool       `json:"dup,omitempty"`
	Vars   bool       `json:"vars,omitempty"`  // a variable with the same name as each task is declared above the tasks
	Twins  bool       `json:"twins,omitempty"` // every task dependency is preceded by a FILE dependency of the same spelling
	Family string     `json:"family,omitempty"`
	// exploration parameters
	ReqMaxLen   int  `json:"req_max_len"`
	ReqRepeat   bool `json:"req_repeat"`
	ReqUndef    bool `json:"req_undef,omitempty"`     // also request the undefined name "zz"
	OrderBound  int  `json:"order_bound"`             // -1 = all iteration orders
	Failing     bool `json:"failing,omitempty"`       // additionally every single failing task
	ReqOnlyLast bool `json:"req_only_last,omitempty"` // the only request is the last task
	ReqCase     bool `json:"req_case,omitempty"`      // also request each name in another letter case (undefined: names are case-sensitive)
}

var vnames = []string{"ta", "tb", "tc", "td", "te", "tf", "tg", "th"}

// pnames are task names that are prefixes of one another, so that two different
// (dependency, task) pairs can concatenate to the same text.
var pnames = []string{"t", "tt", "ttt", "tttt"}

func maskGraph(n int, mask uint32) gspec { return maskGraphNames(n, mask, vnames) }

func maskGraphNames(n int, mask uint32, names []string) gspec {
	g := gspec{Names: names[:n], Deps: make([][]string, n)}
	for i := 0; i < n; i++ {
		for j := 0; j < n; j++ {
			if mask&(1<<(i*n+j)) != 0 {
				g.Deps[i] = append(g.Deps[i], names[j])
			}
		}
	}
	return g
}

func c03Specs(tier string) []gspec {
	var out []gspec
	for n := 1; n <= 3; n++ {
		for m := uint32(0); m < 1<<(n*n); m++ {
			g := maskGraph(n, m)
			g.ReqMaxLen, g.ReqRepeat, g.OrderBound = 3, true, -1
			g.Failing = tier == "thorough"
			out = append(out, g)
		}
	}
	// undefined names: depth 1 (requested / direct dependency) and depth 2
	for m := uint32(0); m < 16; m++ {
		for z := 1; z < 4; z++ {
			g := maskGraph(2, m)
			if z&1 != 0 {
				g.Deps[0] = append(g.Deps[0], "zz")
			}
			if z&2 != 0 {
				g.Deps[1] = append(g.Deps[1], "zz")
			}
			g.ReqMaxLen, g.ReqRepeat, g.OrderBound, g.Family = 2, false, -1, "undefined-dep"
			out = append(out, g)
		}
		g := maskGraph(2, m)
		g.ReqMaxLen, g.ReqRepeat, g.OrderBound, g.ReqUndef, g.Family = 2, false, -1, true, "undefined-request"
		out = append(out, g)
	}
	// a request that differs from a defined name only in letter case names an undefined task
	for m := uint32(0); m < 1<<9; m++ {
		g := maskGraph(3, m)
		g.ReqMaxLen, g.ReqRepeat, g.OrderBound, g.ReqCase, g.Family = 2, false, 1, true, "request-in-another-letter-case"
		out = append(out, g)
	}
	// variables named like the tasks (and like the undefined name)
	for n := 1; n <= 3; n++ {
		for m := uint32(0); m < 1<<(n*n); m++ {
			if n == 3 && m%7 != 0 {
				continue // every 7th three-vertex graph
			}
			g := maskGraph(n, m)
			g.Vars, g.ReqMaxLen, g.ReqRepeat, g.OrderBound, g.Family = true, 2, false, 1, "variable-named-like-task"
			out = append(out, g)
		}
	}
	for m := uint32(0); m < 16; m++ {
		g := maskGraph(2, m)
		g.Deps[1] = append(g.Deps[1], "zz")
		g.Vars, g.ReqMaxLen, g.OrderBound, g.Family = true, 2, -1, "undefined-dep-named-like-variable"
		out = append(out, g)
	}
	// a file dependency spelled like the task dependency next to it
	for n := 2; n <= 3; n++ {
		for m := uint32(0); m < 1<<(n*n); m++ {
			if n == 3 && m%5 != 0 {
				continue
			}
			g := maskGraph(n, m)
			g.Twins, g.ReqMaxLen, g.ReqRepeat, g.OrderBound, g.Family = true, 2, false, 1, "file-spelled-like-task"
			out = append(out, g)
		}
	}
	// task names that are prefixes of one another
	for n := 2; n <= 4; n++ {
		for m := uint32(0); m < 1<<(n*n); m++ {
			if n == 4 && bits.OnesCount32(m) != 2 && tier != "thorough" {
				continue // four tasks: every graph with exactly two edges
			}
			if n == 4 && bits.OnesCount32(m) > 3 {
				continue
			}
			g := maskGraphNames(n, m, pnames)
			g.ReqMaxLen, g.ReqRepeat, g.OrderBound, g.Family = 2, false, -1, "names-prefix-of-each-other"
			out = append(out, g)
		}
	}
	// task names that read like something spok itself might treat specially
	for _, names := range [][]string{{"clean", "dep", "build"}, {"help", "default", "version"}, {"init", "show", "fmt"}} {
		for m := uint32(0); m < 1<<9; m++ {
			g := maskGraphNames(3, m, names)
			g.ReqMaxLen, g.ReqRepeat, g.OrderBound, g.Family = 2, false, 1, "names-like-commands"
			out = append(out, g)
		}
	}
	// duplicate definitions
	for m := uint32(0); m < 16; m++ {
		g := maskGraph(2, m)
		g.Dup, g.ReqMaxLen, g.OrderBound, g.Family = true, 2, -1, "duplicate-definition"
		out = append(out, g)
	}
	// parametric families up to 8 vertices
	fam := func(name string, n int, edges [][2]int) {
		g := gspec{Names: vnames[:n], Deps: make([][]string, n), Family: name, ReqMaxLen: 1, OrderBound: 1}
		if tier == "thorough" {
			g.ReqMaxLen, g.OrderBound = 2, 2
		}
		for _, e := range edges {
			g.Deps[e[0]] = append(g.Deps[e[0]], vnames[e[1]])
		}
		out = append(out, g)
	}
	for n := 4; n <= 8; n++ {
		var chain, intree, outtree, cyc [][2]int
		for i := 0; i+1 < n; i++ {
			chain = append(chain, [2]int{i, i + 1})
		}
		for i := 1; i < n; i++ {
			intree = append(intree, [2]int{(i - 1) / 2, i}) // parent depends on children
			outtree = append(outtree, [2]int{i, (i - 1) / 2})
		}
		fam(fmt.Sprintf("chain-%d", n), n, chain)
		fam(fmt.Sprintf("intree-%d", n), n, intree)
		fam(fmt.Sprintf("outtree-%d", n), n, outtree)
		// cycle of length n-2 with a tail vertex depending on it, beside one independent task
		for i := 0; i < n-2; i++ {
			cyc = append(cyc, [2]int{i, (i + 1) % (n - 2)})
		}
		cyc = append(cyc, [2]int{n - 2, 0})
		fam(fmt.Sprintf("cycle+tail+independent-%d", n), n, cyc)
		// diamond ladder
		var dia [][2]int
		for i := 0; i+3 < n; i += 3 {
			dia = append(dia, [2]int{i, i + 1}, [2]int{i, i + 2}, [2]int{i + 1, i + 3}, [2]int{i + 2, i + 3})
		}
		fam(fmt.Sprintf("diamonds-%d", n), n, dia)
	}
	// a chain far deeper than any recursion or depth guard is likely to allow for: request the far end
	{
		n := 100
		names := make([]string, n)
		for i := range names {
			names[i] = fmt.Sprintf("t%c%c", 'a'+i/26, 'a'+i%26)
		}
		g := gspec{Names: names, Deps: make([][]string, n), Family: "chain-100", ReqMaxLen: 1, OrderBound: 0, ReqOnlyLast: true}
		for i := 1; i < n; i++ {
			g.Deps[i] = []string{names[i-1]}
		}
		out = append(out, g)
	}
	if tier == "thorough" {
		for m := uint32(0); m < 1<<16; m++ {
			g := maskGraph(4, m)
			g.ReqMaxLen, g.ReqRepeat, g.OrderBound = 4, false, 1
			out = append(out, g)
		}
	}
	return out
}

func (g gspec) text() string {
	var sb strings.Builder
	def := func(i int) {
		n := g.Names[i]
		deps := g.Deps[i]
		if g.Twins {
			deps = nil
			for _, d := range g.Deps[i] {
				deps = append(deps, `"`+d+`"`, d)
			}
		}
		fmt.Fprintf(&sb, "task %s(%s) {\n    echo %s >> \"$VLOG\"\n    test ! -e \"$VCTL/fail_%s\"\n}\n\n", n, strings.Join(deps, ", "), n, n)
	}
	if g.Vars {
		var vb strings.Builder
		for _, n := range g.Names {
			fmt.Fprintf(&vb, "%s := \"site/*.md\"\n", n)
		}
		vb.WriteString("zz := \"x\"\n\n")
		sb.WriteString(vb.String())
	}
	for i := range g.Names {
		def(i)
	}
	if g.Dup {
		def(0)
	}
	return sb.String()
}

func (g gspec) requests() [][]string {
	if g.ReqOnlyLast {
		return [][]string{{g.Names[len(g.Names)-1]}}
	}
	names := append([]string{}, g.Names...)
	if g.ReqUndef {
		names = append(names, "zz")
	}
	if g.ReqCase {
		for _, n := range g.Names {
			names = append(names, strings.ToUpper(n), strings.ToUpper(n[:1])+n[1:])
		}
	}
	var out [][]string
	var rec func(cur []string)
	rec = func(cur []string) {
		if len(cur) > 0 {
			out = append(out, append([]string{}, cur...))
		}
		if len(cur) == g.ReqMaxLen {
			return
		}
		for _, n := range names {
			if !g.ReqRepeat {
				dup := false
				for _, c := range cur {
					if c == n {
						dup = true
					}
				}
				if dup {
					continue
				}
			}
			rec(append(cur, n))
		}
	}
	rec(nil)
	return out
}

// reference: closure, undefined, cycle
func (g gspec) reference(req []string) (closure []string, undefined bool, cyclic bool) {
	idx := map[string]int{}
	for i, n := range g.Names {
		idx[n] = i
	}
	seen := map[string]bool{}
	var visit func(n string)
	visit = func(n string) {
		if seen[n] {
			return
		}
		i, ok := idx[n]
		if !ok {
			undefined = true
			return
		}
		seen[n] = true
		for _, d := range g.Deps[i] {
			visit(d)
		}
	}
	for _, r := range req {
		visit(r)
	}
	for n := range seen {
		closure = append(closure, n)
	}
	sort.Strings(closure)
	// cycle test on the induced subgraph: repeatedly remove vertices without remaining deps
	remaining := map[string]bool{}
	for _, n := range closure {
		remaining[n] = true
	}
	for changed := true; changed; {
		changed = false
		for n := range remaining {
			free := true
			for _, d := range g.Deps[idx[n]] {
				if remaining[d] {
					free = false
				}
			}
			if free {
				delete(remaining, n)
				changed = true
			}
		}
	}
	cyclic = len(remaining) > 0
	return
}

type c03Case struct {
	Spec    gspec    `json:"spec"`
	Request []string `json:"request"`
	Order   []int    `json:"order"`
	Failing string   `json:"failing,omitempty"`
}

// c03Oracle compares one execution with the reference.
func c03Oracle(g gspec, req []string, failing string, out proj.RunOut) (class, what string) {
	closure, undefined, cyclic := g.reference(req)
	idx := map[string]int{}
	for i, n := range g.Names {
		idx[n] = i
	}
	if out.Panic != "" {
		return "panic", out.Panic
	}
	if g.Dup || undefined || cyclic {
		why := "duplicate definition"
		cls := "duplicate-not-reported"
		if !g.Dup {
			why, cls = "undefined task in the closure", "undefined-not-reported"
			if !undefined {
				why, cls = "dependency cycle among the selected tasks", "cycle-not-reported"
			}
		}
		if !out.Failed() {
			var ran []string
			for _, r := range out.Results {
				ran = append(ran, r.Name)
			}
			return cls, fmt.Sprintf("%s but spok reported no error and ran %v", why, ran)
		}
		if len(out.Log) != 0 {
			return "ran-despite-error", fmt.Sprintf("%s: error %q but commands of %v were executed", why, firstLine(out.ErrText()), out.Log)
		}
		return "", ""
	}
	if out.Failed() {
		return "spurious-error", fmt.Sprintf("valid request rejected: %s", firstLine(out.ErrText()))
	}
	var names []string
	count := map[string]int{}
	for _, r := range out.Results {
		names = append(names, r.Name)
		count[r.Name]++
	}
	for _, n := range closure {
		if count[n] == 0 {
			return "task-left-out", fmt.Sprintf("closure %v but spok ran only %v", closure, names)
		}
		if count[n] > 1 {
			return "task-ran-twice", fmt.Sprintf("task %s appears %d times in %v", n, count[n], names)
		}
	}
	if len(names) != len(closure) {
		return "extra-task", fmt.Sprintf("closure %v but spok ran %v", closure, names)
	}
	pos := map[string]int{}
	for i, n := range names {
		pos[n] = i
	}
	for _, n := range closure {
		for _, d := range g.Deps[idx[n]] {
			if pos[d] > pos[n] {
				return "order", fmt.Sprintf("%s depends on %s but the run order was %v", n, d, names)
			}
		}
	}
	// the side-effect log must agree with the report (every task is file-less, so none may be skipped silently)
	var wantLog []string
	for _, r := range out.Results {
		if !r.Skipped {
			wantLog = append(wantLog, r.Name)
		}
	}
	if strings.Join(wantLog, ",") != strings.Join(out.Log, ",") {
		return "log-mismatch", fmt.Sprintf("reported order %v but commands executed in order %v", wantLog, out.Log)
	}
	_ = failing
	return "", ""
}

func firstLine(s string) string {
	if i := strings.IndexByte(s, '\n'); i >= 0 {
		return s[:i]
	}
	return s
}

type c03Result struct {
	Execs     int64            `json:"execs"`
	Cases     int64            `json:"cases"`
	Nontriv   int64            `json:"nontriv"`
	Outcomes  map[string]int64 `json:"outcomes"`
	Orders    map[string]bool  `json:"-"`
	NOrders   int64            `json:"norders"`
	Viol      []ev.Violation   `json:"viol"`
	Samples   []c03Case        `json:"samples"`
	OrderHits int64            `json:"order_hits"` // executions in which the order hook was consulted
}

func runC03Case(sb *proj.Sandbox, g gspec, text string, req []string, failing string, prefix []int, res *c03Result) (width []int, taken []int) {
	c := choose.NewReplay(prefix)
	setDagOrder(func(n int) []int { return c.Perm(n) })
	defer setDagOrder(nil)
	if failing != "" {
		sb.SetFailing([]string{failing}, g.Names)
	} else {
		sb.SetFailing(nil, g.Names)
	}
	os.RemoveAll(filepath.Join(sb.Dir, ".spok"))
	out := sb.Run(text, false, req...)
	res.Execs++
	if len(c.Taken) > 0 {
		res.OrderHits++
	}
	cls, what := c03Oracle(g, req, failing, out)
	okey := "ok-ran"
	if out.Failed() {
		okey = "ok-error"
	}
	if cls != "" {
		okey = "violation:" + cls
		if len(res.Viol) < 60 {
			cs := c03Case{Spec: g, Request: req, Order: append([]int{}, c.Taken...), Failing: failing}
			var m map[string]any
			json.Unmarshal(pool.MustJSON(cs), &m)
			res.Viol = append(res.Viol, ev.Violation{Engine: "cfgmc-c03",
				Key:   fmt.Sprintf("deps=%v dup=%v vars=%v twins=%v request=%v order=%v failing=%s", g.Deps, g.Dup, g.Vars, g.Twins, req, c.Taken, failing),
				Class: cls, What: fmt.Sprintf("graph %s request %v iteration-order choices %v: %s", depString(g), req, c.Taken, what), Case: m})
		}
	}
	res.Outcomes[okey]++
	return c.Width, c.Taken
}

func depString(g gspec) string {
	var p []string
	for i, n := range g.Names {
		p = append(p, fmt.Sprintf("%s(%s)", n, strings.Join(g.Deps[i], ",")))
	}
	if g.Dup {
		p = append(p, "+duplicate "+g.Names[0])
	}
	return strings.Join(p, " ")
}

// worker: mc worker c03 <tier> <lo> <hi>
func c03Worker(args []string) {
	tier := args[0]
	lo, _ := strconv.Atoi(args[1])
	hi, _ := strconv.Atoi(args[2])
	specs := c03Specs(tier)
	sb := proj.NewSandbox(os.Getenv("VERIF_SANDBOX"))
	res := c03Result{Outcomes: map[string]int64{}}
	prog := pool.OpenProgress()
	for i := lo; i < hi && i < len(specs); i++ {
		g := specs[i]
		text := g.text()
		sb.ResetProject()
		if g.Twins {
			for _, n := range append(append([]string{}, g.Names...), "zz") {
				os.WriteFile(filepath.Join(sb.Dir, n), []byte("file "+n+"\n"), 0o644)
			}
		}
		fails := []string{""}
		if g.Failing {
			fails = append(fails, g.Names...)
		}
		for _, req := range g.requests() {
			for _, f := range fails {
				prog.Announce(int64(i), 0)
				res.Cases++
				closure, _, _ := g.reference(req)
				if len(closure) > 1 {
					res.Nontriv++
				}
				if len(res.Samples) < 3 && len(closure) > 1 {
					res.Samples = append(res.Samples, c03Case{Spec: g, Request: req, Failing: f})
				}
				// explore iteration orders (all, or with <= OrderBound non-default choices)
				var rec func(prefix []int, cost int)
				rec = func(prefix []int, cost int) {
					width, taken := runC03Case(sb, g, text, req, f, prefix, &res)
					for p := len(prefix); p < len(taken); p++ {
						for alt := 1; alt < width[p]; alt++ {
							if g.OrderBound >= 0 && cost+1 > g.OrderBound {
								continue
							}
							rec(append(append([]int{}, taken[:p]...), alt), cost+1)
						}
					}
				}
				rec(nil, 0)
			}
		}
	}
	os.Stdout.Write(pool.MustJSON(res))
}

func c03Check(tier string) int {
	run := ev.NewRun("C03", tier, "model_checking", "cfgmc-c03")
	if !dagControlled {
		ev.Fatal("C03 needs the dag-controlled build variant")
	}
	specs := c03Specs(tier)
	per := 8
	if tier == "thorough" {
		per = 64
	}
	nsh := (len(specs) + per - 1) / per
	var mu sync.Mutex
	total := c03Result{Outcomes: map[string]int64{}}
	pool.Parallel(nsh, func(k int) {
		sbroot := filepath.Join(pool.Scratch, fmt.Sprintf("c03.%d", k))
		os.MkdirAll(sbroot, 0o777)
		pool.ChownNobody(sbroot)
		out := pool.RunWorker([]string{"c03", tier, strconv.Itoa(k * per), strconv.Itoa((k + 1) * per)}, nil, budget(tier), true, "VERIF_SANDBOX="+sbroot)
		if out.TimedOut && out.ExitCode != 3 {
			// the wall-clock budget ran out (a loaded machine, a slower tree): not a verdict about the property
			run.Add("workers_out_of_budget", 1)
			run.Set("exhaustive", false)
			run.Set("cap", "a worker exceeded the wall-clock budget of this tier; its share of the space was not completed")
			return
		}
		if out.Crashed() {
			g := specs[min(int(out.Progress[0]), len(specs)-1)]
			run.Report(ev.Violation{Key: "worker-crash " + depString(g), Class: "process-crash",
				What: fmt.Sprintf("worker died (exit=%d signal=%s timeout=%v) while running graph %s: %s", out.ExitCode, out.Signal, out.TimedOut, depString(g), firstLines(string(out.Stderr), 6)),
				Case: map[string]any{"spec": g}})
			return
		}
		var r c03Result
		if err := json.Unmarshal(out.Stdout, &r); err != nil {
			ev.Fatal("bad worker output: %v %s", err, out.Stderr)
		}
		mu.Lock()
		total.Execs += r.Execs
		total.Cases += r.Cases
		total.Nontriv += r.Nontriv
		total.OrderHits += r.OrderHits
		for k, v := range r.Outcomes {
			total.Outcomes[k] += v
		}
		if len(total.Samples) < 6 {
			total.Samples = append(total.Samples, r.Samples...)
		}
		mu.Unlock()
		for _, v := range r.Viol {
			run.Report(v)
		}
		os.RemoveAll(sbroot)
	})
	for _, s := range total.Samples {
		run.Sample(map[string]any{"graph": depString(s.Spec), "request": s.Request, "failing": s.Failing})
	}
	run.Set("binary_invocations", c03Binary(run))
	run.Set("states", total.Cases)
	run.Set("transitions", total.Execs)
	run.Set("traces_validated_against_impl", total.Execs)
	run.Set("evaluations", total.Execs)
	run.Set("distinct_nontrivial", total.Nontriv)
	run.Set("graphs", len(specs))
	run.Set("executions_with_order_choice", total.OrderHits)
	run.Set("outcomes", total.Outcomes)
	run.Set("rule", "states = (graph, request list[, failing task]) cases; transitions = real SpokFile.Run executions, one per case and per choice of map-iteration order inside the topological sort (all orders for <=3 vertices, <=1 [thorough <=2] non-default choices for larger graphs); graphs: every digraph on 1..3 vertices incl. self-loops (thorough: + every digraph on 4 vertices), undefined names at depth 1/2, duplicate definitions, families (chains, trees, diamonds, cycle+tail beside an independent task) up to 8 vertices; non-trivial = closure has more than one task")
	run.Assumes("iteration order of Go maps is modelled by an explicit choice in an overlay copy of collections/dag (every permutation admissible)", "task commands append to a harness-owned log, so execution order is observed independently of spok's report")
	return run.Finish()
}

// c03Binary: the request as the command line hands it over. A task whose name reads like a
// sub-command or a flag of spok is requested alone, after another task and before one; it
// and its dependency must run, dependency first.
func c03Binary(run *ev.Run) int64 {
	words := []string{"help", "version", "init", "clean", "default", "fmt", "show", "vars", "completion", "spok", "force", "json", "quiet", "debug", "spokfile", "h", "V"}
	root := filepath.Join(pool.Scratch, "c03bin")
	t := bin.Tree{Root: root}
	var calls int64
	for _, w := range words {
		text := fmt.Sprintf("task dep() {\n    echo dep >> \"$VLOG\"\n}\n\ntask other() {\n    echo other >> \"$VLOG\"\n}\n\ntask %s(dep) {\n    echo %s >> \"$VLOG\"\n}\n", w, w)
		for _, req := range [][]string{{w}, {"other", w}, {w, "other"}, {"--quiet", w}} {
			t.Reset()
			proj := t.Mkdir("home/w/proj")
			ctl := t.Mkdir("ctl")
			t.File("home/w/proj/spokfile", text)
			vlog := filepath.Join(ctl, "vlog")
			o := bin.Run(proj, filepath.Join(root, "home"), []string{"VLOG=" + vlog}, req...)
			calls++
			log := readLog(vlog)
			pos := map[string]int{}
			for i, l := range log {
				if _, seen := pos[l]; seen {
					pos[l] = -2 // twice
				} else {
					pos[l] = i
				}
			}
			key := fmt.Sprintf("binary %v", req)
			c := map[string]any{"binary_request": req, "word": w}
			dp, okd := pos["dep"]
			wp, okw := pos[w]
			switch {
			case o.Died():
				run.Report(ev.Violation{Key: key, Class: "process-crash", What: fmt.Sprintf("`spok %s`: died (signal %s)", strings.Join(req, " "), o.Signal), Case: c})
			case o.Exit != 0:
				run.Report(ev.Violation{Key: key, Class: "valid-request-rejected", What: fmt.Sprintf("`spok %s` with tasks dep, other, %s(dep) defined: exit %d: %s", strings.Join(req, " "), w, o.Exit, firstLines(o.Stderr, 2)), Case: c})
			case !okw || !okd:
				run.Report(ev.Violation{Key: key, Class: "task-left-out", What: fmt.Sprintf("`spok %s` exited 0 but the commands that ran were %v: task %s and its dependency dep were requested", strings.Join(req, " "), log, w), Case: c})
			case dp < 0 || wp < 0:
				run.Report(ev.Violation{Key: key, Class: "ran-twice", What: fmt.Sprintf("`spok %s`: commands ran %v", strings.Join(req, " "), log), Case: c})
			case dp > wp:
				run.Report(ev.Violation{Key: key, Class: "order", What: fmt.Sprintf("`spok %s`: %s started before its dependency: %v", strings.Join(req, " "), w, log), Case: c})
			}
		}
	}
	os.RemoveAll(root)
	return calls
}

func c03Replay(path string) int {
	{
		var v ev.Violation
		data, _ := os.ReadFile(path)
		json.Unmarshal(data, &v)
		if _, isBin := v.Case["binary_request"]; isBin {
			fmt.Println("this finding came from the command-line part of C03 (a handful of invocations): re-run the check")
			return 2
		}
	}
	var v ev.Violation
	data, _ := os.ReadFile(path)
	json.Unmarshal(data, &v)
	var cs c03Case
	json.Unmarshal(pool.MustJSON(v.Case), &cs)
	sb := proj.NewSandbox(filepath.Join(pool.Scratch, "replay"))
	if cs.Spec.Twins {
		for _, n := range append(append([]string{}, cs.Spec.Names...), "zz") {
			os.WriteFile(filepath.Join(sb.Dir, n), []byte("file "+n+"\n"), 0o644)
		}
	}
	res := c03Result{Outcomes: map[string]int64{}}
	fmt.Printf("replaying C03: graph %s request %v order %v failing %q\n", depString(cs.Spec), cs.Request, cs.Order, cs.Failing)
	runC03Case(sb, cs.Spec, cs.Spec.text(), cs.Request, cs.Failing, cs.Order, &res)
	if len(res.Viol) > 0 {
		fmt.Printf("VIOLATION property=C03 replay=%s\n  %s\n", path, res.Viol[0].What)
		return 1
	}
	fmt.Println("no violation on replay")
	return 0
}
