//go:build !dagctl

package main

const dagControlled = false

func setDagOrder(f func(n int) []int) {}

func setFileOrder(f func(n int) []int) {}
