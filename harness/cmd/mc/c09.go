package main

import (
	"encoding/json"
	"fmt"
	"os"
	"path/filepath"
	"strings"
	"sync"

	"verifharness/internal/bin"
	"verifharness/internal/ev"
	"verifharness/internal/pool"
)

func init() {
	checks["C09"] = c09Check
	replays["cfgmc-c09"] = c09Replay
}

type c09Fail struct {
	Task   int  `json:"task"`
	Pos    int  `json:"pos"`
	Status int  `json:"status"`        // 127 = unknown command; -13 = external process killed by SIGPIPE
	Ext    bool `json:"ext,omitempty"` // the status comes from an external process (sh -c 'exit N') instead of the builtin exit
	// Form: the syntactic shape of the failing command: "" an or-list, "subshell", "brace", "if", "negation", "dbracket"
	// (the last two can only fail with status 1)
	Form string `json:"form,omitempty"`
}

type c09Case struct {
	Shape string    `json:"shape"`
	NCmds int       `json:"ncmds"`
	Fails []c09Fail `json:"fails"`
	Mode  string    `json:"mode"`           // plain | quiet | json | force
	Warm  bool      `json:"warm,omitempty"` // an earlier, successful run has cached every task; then the failing tasks' inputs change
}

var c09Names = []string{"alphatask", "betatask", "gammatask"}

type c09Shape struct {
	Name    string
	NTasks  int
	Deps    [][]int
	Request []string
}

var c09Shapes = []c09Shape{
	// a user task named clean run through --clean, and a task named default run by giving no task name
	{"clean-flag", 1, [][]int{{}}, []string{"--clean"}},
	{"default-task", 1, [][]int{{}}, []string{}},
	// task names starting with an underscore (legal identifiers), as a dependency and requested directly
	{"underscore-dependency", 2, [][]int{{}, {0}}, []string{"betatask"}},
	{"underscore-requested", 1, [][]int{{}}, []string{"_gen"}},
	// a chain of twelve tasks: failures far down the run order
	{"long-chain", 12, [][]int{{}, {0}, {1}, {2}, {3}, {4}, {5}, {6}, {7}, {8}, {9}, {10}}, []string{"tl"}},
	{"single", 1, [][]int{{}}, []string{"alphatask"}},
	{"independent", 2, [][]int{{}, {}}, []string{"alphatask", "betatask"}},
	{"chain", 2, [][]int{{}, {0}}, []string{"betatask"}},
	{"diamond-leg", 3, [][]int{{}, {}, {0, 1}}, []string{"gammatask"}},
}

func (s c09Shape) taskName(t int) string {
	switch s.Name {
	case "clean-flag":
		return "clean"
	case "default-task":
		return "default"
	case "underscore-dependency":
		if t == 0 {
			return "_gen"
		}
	case "underscore-requested":
		return "_gen"
	case "long-chain":
		return "t" + string(rune('a'+t))
	}
	return c09Names[t]
}

func c09ShapeOf(name string) c09Shape {
	for _, s := range c09Shapes {
		if s.Name == name {
			return s
		}
	}
	return c09Shapes[0]
}

func (c c09Case) text() string {
	sh := c09ShapeOf(c.Shape)
	var sb strings.Builder
	for t := 0; t < sh.NTasks; t++ {
		n := sh.taskName(t)
		var deps []string
		for _, d := range sh.Deps[t] {
			deps = append(deps, sh.taskName(d))
		}
		deps = append(deps, `"`+n+`.txt"`)
		fmt.Fprintf(&sb, "task %s(%s) {\n    echo %s:0 >> \"$VLOG\"\n", n, strings.Join(deps, ", "), n)
		for k := 1; k <= c.NCmds; k++ {
			failed := false
			for _, f := range c.Fails {
				if f.Task == t && f.Pos == k {
					failed = true
					switch f.Form {
					case "subshell":
						fmt.Fprintf(&sb, "    (test ! -e \"$VCTL/on\" || exit %d)\n", f.Status)
						continue
					case "brace":
						fmt.Fprintf(&sb, "    { test ! -e \"$VCTL/on\" || exit %d; }\n", f.Status)
						continue
					case "if":
						fmt.Fprintf(&sb, "    if test -e \"$VCTL/on\"; then exit %d; fi\n", f.Status)
						continue
					case "negation":
						sb.WriteString("    ! test -e \"$VCTL/on\"\n")
						continue
					case "dbracket":
						sb.WriteString("    [[ ! -e \"$VCTL/on\" ]]\n")
						continue
					case "long":
						// a command line of some 300 bytes
						fmt.Fprintf(&sb, "    test ! -e \"$VCTL/on\" || sh -c 'exit %d' ignored %s\n", f.Status, strings.Repeat("a-rather-long-argument ", 12))
						continue
					case "cd":
						// a bare change of directory: the directory "gate" is only there while nothing is to fail
						sb.WriteString("    cd gate\n")
						continue
					}
					if f.Status == 127 {
						fmt.Fprintf(&sb, "    test ! -e \"$VCTL/on\" || nosuchcommand_verif_%d\n", k)
					} else if f.Status == -13 {
						fmt.Fprintf(&sb, "    test ! -e \"$VCTL/on\" || sh -c 'kill -PIPE $$'\n")
					} else if f.Ext {
						fmt.Fprintf(&sb, "    test ! -e \"$VCTL/on\" || sh -c 'exit %d'\n", f.Status)
					} else {
						fmt.Fprintf(&sb, "    test ! -e \"$VCTL/on\" || exit %d\n", f.Status)
					}
				}
			}
			if !failed {
				fmt.Fprintf(&sb, "    echo %s:%d >> \"$VLOG\"\n", n, k)
			}
		}
		sb.WriteString("}\n\n")
	}
	return sb.String()
}

func c09Cases(tier string) []c09Case {
	var out []c09Case
	extStatuses := []int{1, 141, -13}
	if tier == "thorough" {
		extStatuses = []int{1, 2, 126, 129, 130, 137, 141, 143, 255, -13}
	}
	statuses := []int{1, 2, 127, 255}
	if tier == "thorough" {
		statuses = []int{1, 2, 3, 126, 127, 128, 200, 255}
	}
	maxCmds := 3
	if tier == "thorough" {
		maxCmds = 4
	}
	for _, sh := range c09Shapes {
		for n := 1; n <= maxCmds; n++ {
			if sh.Name == "long-chain" && n > 1 {
				continue
			}
			var singles []c09Fail
			for t := 0; t < sh.NTasks; t++ {
				for k := 1; k <= n; k++ {
					singles = append(singles, c09Fail{Task: t, Pos: k, Status: 1})
				}
			}
			for _, mode := range []string{"plain", "quiet", "json", "force"} {
				for _, f := range singles {
					for _, st := range statuses {
						f.Status = st
						out = append(out, c09Case{Shape: sh.Name, NCmds: n, Fails: []c09Fail{f}, Mode: mode})
					}
					// statuses of external processes, incl. 128+signal values and a real death by signal
					for _, st := range extStatuses {
						g := f
						g.Status, g.Ext = st, true
						out = append(out, c09Case{Shape: sh.Name, NCmds: n, Fails: []c09Fail{g}, Mode: mode})
					}
				}
				// the failing command in other syntactic shapes
				for _, f := range singles {
					for _, form := range []string{"subshell", "brace", "if", "negation", "dbracket", "long", "cd"} {
						g := f
						g.Form, g.Status = form, 3
						if form == "negation" || form == "dbracket" || form == "cd" {
							g.Status = 1
						}
						out = append(out, c09Case{Shape: sh.Name, NCmds: n, Fails: []c09Fail{g}, Mode: mode})
					}
				}
				// everything before the failing task is up to date and skipped
				if mode != "force" && (sh.Name == "diamond-leg" || sh.Name == "long-chain" || sh.Name == "chain") {
					out = append(out, c09Case{Shape: sh.Name, NCmds: n, Fails: []c09Fail{{Task: sh.NTasks - 1, Pos: n, Status: 1}}, Mode: mode, Warm: true})
				}
				// two failing commands (same or different tasks)
				for i := range singles {
					for j := i + 1; j < len(singles); j++ {
						if n > 2 && tier != "thorough" && singles[i].Task == singles[j].Task {
							continue
						}
						a, b := singles[i], singles[j]
						a.Status, b.Status = 3, 1
						out = append(out, c09Case{Shape: sh.Name, NCmds: n, Fails: []c09Fail{a, b}, Mode: mode})
						// statuses whose sum is a multiple of 256
						for _, pr := range [][2]int{{128, 128}, {255, 1}} {
							a.Status, b.Status = pr[0], pr[1]
							out = append(out, c09Case{Shape: sh.Name, NCmds: n, Fails: []c09Fail{a, b}, Mode: mode})
						}
					}
				}
			}
		}
	}
	return out
}

type c09Obs struct {
	cls  string
	what string
}

func c09Run(root string, c c09Case) (res []c09Obs, outcome string) {
	t := bin.Tree{Root: root}
	t.Reset()
	proj := t.Mkdir("home/w/proj")
	ctl := t.Mkdir("ctl")
	home := filepath.Join(root, "home")
	sh := c09ShapeOf(c.Shape)
	t.File("home/w/proj/spokfile", c.text())
	for i := 0; i < sh.NTasks; i++ {
		t.File("home/w/proj/"+sh.taskName(i)+".txt", "v0\n")
	}
	t.File("ctl/on", "")
	gate := filepath.Join(proj, "gate") // exists exactly while nothing is to fail
	vlog := filepath.Join(ctl, "vlog")
	env := []string{"VLOG=" + vlog, "VCTL=" + ctl}
	args := append([]string{}, sh.Request...)
	switch c.Mode {
	case "quiet":
		args = append(args, "--quiet")
	case "json":
		args = append(args, "--json")
	case "force":
		args = append(args, "--force")
	}
	if c.Warm {
		os.Remove(filepath.Join(ctl, "on"))
		t.Mkdir("home/w/proj/gate")
		if w := bin.Run(proj, home, env, sh.Request...); w.Exit != 0 || w.Died() {
			return []c09Obs{{"second-run-fails", fmt.Sprintf("a run without any failing command exits %d: %s", w.Exit, firstLines(w.Stderr, 3))}}, "warm-run-error"
		}
		for _, f := range c.Fails {
			t.File("home/w/proj/"+sh.taskName(f.Task)+".txt", "v1\n")
		}
		t.File("ctl/on", "")
		os.Remove(gate)
		os.Remove(vlog)
	}
	o1 := bin.Run(proj, home, env, args...)
	log1, _ := os.ReadFile(vlog)
	failing := map[string]bool{}
	for _, f := range c.Fails {
		failing[sh.taskName(f.Task)] = true
	}
	executedFailing := []string{}
	for n := range failing {
		if strings.Contains(string(log1), n+":0\n") {
			executedFailing = append(executedFailing, n)
		}
	}
	if o1.Died() {
		return []c09Obs{{"process-died", fmt.Sprintf("spok died: signal=%s timeout=%v stderr=%s", o1.Signal, o1.TimedOut, firstLines(o1.Stderr, 3))}}, "died"
	}
	if len(executedFailing) == 0 {
		// no failing command was reached: nothing to demand of this invocation
		return nil, "failing-task-not-reached"
	}
	if o1.Exit == 0 {
		res = append(res, c09Obs{"exit-zero-despite-failing-command", fmt.Sprintf("a command of %v exited non-zero but spok exited 0 (mode %s); stderr: %s", executedFailing, c.Mode, firstLines(o1.Stderr, 2))})
	} else {
		named := false
		for _, n := range executedFailing {
			if strings.Contains(o1.Stderr, n) {
				named = true
			}
		}
		if !named {
			res = append(res, c09Obs{"error-does-not-name-failing-task", fmt.Sprintf("failing task(s) %v not named in the error output (mode %s): %s", executedFailing, c.Mode, firstLines(o1.Stderr, 3))})
		}
	}
	// second, unforced run with the failure removed: the failed tasks must not count as up to date
	os.Remove(filepath.Join(ctl, "on"))
	t.Mkdir("home/w/proj/gate")
	os.Remove(vlog)
	o2 := bin.Run(proj, home, env, append(append([]string{}, sh.Request...), "--json")...)
	log2, _ := os.ReadFile(vlog)
	if o2.Exit != 0 || o2.Died() {
		res = append(res, c09Obs{"second-run-fails", fmt.Sprintf("after the failing run, a run without any failing command exits %d: %s", o2.Exit, firstLines(o2.Stderr, 3))})
		return res, "second-run-error"
	}
	var rep []struct {
		Task    string `json:"task"`
		Skipped bool   `json:"skipped"`
	}
	json.Unmarshal([]byte(o2.Stdout), &rep)
	for _, n := range executedFailing {
		ran := strings.Contains(string(log2), n+":0\n")
		skipped := false
		for _, r := range rep {
			if r.Task == n && r.Skipped {
				skipped = true
			}
		}
		if skipped || !ran {
			res = append(res, c09Obs{"failed-task-treated-as-up-to-date", fmt.Sprintf("task %s failed in the previous run (mode %s) but the next run skipped it (skipped=%v, commands ran=%v)", n, c.Mode, skipped, ran)})
		}
	}
	return res, fmt.Sprintf("exit%d", o1.Exit)
}

func c09Check(tier string) int {
	run := ev.NewRun("C09", tier, "model_checking", "cfgmc-c09")
	cases := c09Cases(tier)
	var mu sync.Mutex
	outcomes := map[string]int64{}
	var invocations, nontriv int64
	pool.Parallel(len(cases), func(i int) {
		c := cases[i]
		obs, outcome := c09RunSlot(i, c)
		mu.Lock()
		outcomes[outcome]++
		invocations += 2
		if outcome != "failing-task-not-reached" {
			nontriv++
		}
		mu.Unlock()
		for _, o := range obs {
			var m map[string]any
			json.Unmarshal(pool.MustJSON(c), &m)
			run.Report(ev.Violation{Key: string(pool.MustJSON(c)), Class: o.cls, What: fmt.Sprintf("shape %s, %d commands/task, failing %v, mode %s: %s", c.Shape, c.NCmds, c.Fails, c.Mode, o.what), Case: m})
		}
		if i%997 == 3 {
			run.Sample(map[string]any{"case": c, "spokfile": c.text()})
		}
	})
	run.Set("states", int64(len(cases)))
	run.Set("transitions", invocations)
	run.Set("traces_validated_against_impl", invocations)
	run.Set("evaluations", invocations)
	run.Set("distinct_nontrivial", nontriv)
	run.Set("outcomes", outcomes)
	run.Set("rule", "states = (program shape in {single, independent, chain, diamond leg} x 1..3 [thorough 4] commands per task x failing command set (every single (task, position) x status in {1,2,127 unknown command,255} [thorough 8 statuses], every pair; the failing command also as a subshell, a brace group, an if statement, a negation and a [[ ]] test; and, for the chains and the diamond, after a successful run that left every other task up to date) x mode in {plain, --quiet, --json, --force}); transitions = invocations of the built spok binary (failing run, then an unforced run with the failure switched off); non-trivial = a failing command was really executed")
	run.Assumes("task commands log to a harness-owned file so that execution is observed independently of spok's report", "spok runs as uid nobody with cwd inside a sandbox under /dev/shm and HOME set to the sandbox")
	return run.Finish()
}

var c09SlotMu [64]sync.Mutex

func c09RunSlot(i int, c c09Case) ([]c09Obs, string) {
	slot := i % 64
	c09SlotMu[slot].Lock()
	defer c09SlotMu[slot].Unlock()
	root := filepath.Join(pool.Scratch, fmt.Sprintf("c09.%d", slot))
	os.MkdirAll(root, 0o755)
	return c09Run(root, c)
}

func c09Replay(path string) int {
	var v ev.Violation
	data, _ := os.ReadFile(path)
	json.Unmarshal(data, &v)
	var c c09Case
	json.Unmarshal(pool.MustJSON(v.Case), &c)
	root := filepath.Join(pool.Scratch, "replay")
	os.MkdirAll(root, 0o755)
	fmt.Printf("replaying C09: %+v\n%s", c, c.text())
	obs, outcome := c09Run(root, c)
	fmt.Println("outcome:", outcome)
	for _, o := range obs {
		fmt.Printf("  %s: %s\n", o.cls, o.what)
	}
	if len(obs) > 0 {
		fmt.Printf("VIOLATION property=C09 replay=%s\n", path)
		return 1
	}
	fmt.Println("no violation on replay")
	return 0
}
