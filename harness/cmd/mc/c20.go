package main

import (
	"bytes"
	"encoding/json"
	"fmt"
	"io"
	"os"
	"path/filepath"
	"sort"
	"strings"
	"sync"
	"sync/atomic"

	"verifharness/internal/bin"
	"verifharness/internal/ev"
	"verifharness/internal/pool"
)

func init() {
	checks["C20"] = c20Check
	replays["cfgmc-c20"] = c20Replay
}

type c20Prog struct {
	NTasks  int  `json:"ntasks"`
	Docs    bool `json:"docs"`
	Default bool `json:"default"` // the last task is named "default"
	NCmds   int  `json:"ncmds"`
	NVars   int  `json:"nvars"`
	Chain   bool `json:"chain"` // task i depends on task i-1
	FileDep bool `json:"filedep"`
	NoMatch bool `json:"nomatch,omitempty"` // the first task also has a glob dependency that matches nothing
	Big     int  `json:"big,omitempty"`     // every task has a further command that writes this many KiB to each stream
	Bg      bool `json:"bg,omitempty"`      // every task: a command that leaves a background job writing later, then a slower command
	Mixed   bool `json:"mixed,omitempty"`   // the first task has no file dependency (it always executes), the others have one
	Gaps    bool `json:"gaps,omitempty"`    // docstrings and values hold runs of several blanks
	Long    bool `json:"long,omitempty"`    // docstrings and variable values are longer than a terminal line; listings also go through a pseudo terminal
}

// ncmds: commands per task
func (p c20Prog) ncmds() int {
	if p.Big > 0 {
		return p.NCmds + 1
	}
	if p.Bg {
		return p.NCmds + 2
	}
	return p.NCmds
}

// nvars: declared variables; with two plain ones there is a third whose exec reads a variable only .env provides
func (p c20Prog) nvars() int {
	if p.NVars == 2 {
		return 3
	}
	return p.NVars
}

// c20Big: n KiB of numbered lines, different per stream
func c20Big(kib int, stream string) string {
	var sb strings.Builder
	// output is bytes, not lines of text: carriage returns with and without a line feed, a tab, trailing
	// blanks, an escape sequence, an empty line, text past ASCII - "exact" means all of them arrive
	sb.WriteString(stream + " crlf line\r\nlone cr\rsame line\n\ttab and trailing blanks  \n\n\x1b[31mred\x1b[0m\né ü 語\n")
	for i := 0; sb.Len() < kib*1024; i++ {
		fmt.Fprintf(&sb, "%s %07d the quick brown fox jumps over the lazy dog\n", stream, i)
	}
	sb.WriteString("last line without a line feed, then a carriage return\r")
	return sb.String()
}

func (p c20Prog) varVal(i int) string {
	if i == 2 {
		return "from-staging"
	}
	if p.Gaps {
		return []string{"val  one", "two   words  apart"}[i]
	}
	if p.Long {
		return c20VarVals[i] + " " + strings.Repeat("and a value that goes on ", 5) + "end" + fmt.Sprint(i)
	}
	return c20VarVals[i]
}

var c20VarNames = []string{"VA", "ZED", "DOTD"}
var c20VarVals = []string{"valone", "two words"}

func (p c20Prog) names() []string {
	n := []string{"zeta", "alpha", "mid", "a_much_longer_task_name", "b"}[:p.NTasks]
	if p.Default {
		n[len(n)-1] = "default"
	}
	return n
}

func (p c20Prog) doc(i int) string {
	if !p.Docs {
		return ""
	}
	if p.Long {
		return fmt.Sprintf("Describes %s here, %sand stops", p.names()[i], strings.Repeat("at length, ", 11))
	}
	if p.Gaps {
		return fmt.Sprintf("Describes:  %s   here,    aligned", p.names()[i])
	}
	return fmt.Sprintf("Describes %s here", p.names()[i])
}

// afterName: what a listing line says after its first column, blanks inside it untouched
func afterName(line, name string) string {
	i := strings.Index(line, name)
	if i < 0 {
		return ""
	}
	return strings.TrimRight(strings.TrimLeft(line[i+len(name):], " \t"), " \t\r")
}

func (p c20Prog) cmd(t string, k int) (src, expanded, stdout, stderr string) {
	v := ""
	vv := ""
	if p.NVars > 0 {
		v, vv = "_{{.VA}}", "_"+p.varVal(0)
	}
	if p.Bg && k == p.NCmds+1 {
		src = fmt.Sprintf("echo %s:%d >> \"$VLOG\"; sleep 0.3 && echo late_%s && echo late_%s >&2 &", t, k, t, t)
		return src, src, "*", "*" // whatever of the late output made it: not compared
	}
	if p.Bg && k == p.NCmds+2 {
		src = fmt.Sprintf("sleep 1 && echo done_%s && echo %s:%d >> \"$VLOG\"", t, t, k)
		return src, src, "done_" + t + "\n", ""
	}
	if k == p.NCmds+1 && p.Big > 0 {
		src = fmt.Sprintf("echo before_%s; cat big.out; echo after_%s; cat big.err >&2; echo %s:%d >> \"$VLOG\"", t, t, t, k)
		return src, src, "before_" + t + "\n" + c20Big(p.Big, "out") + "after_" + t + "\n", c20Big(p.Big, "err")
	}
	// the texts carry printf verbs: a report that is passed through a format function would mangle them
	// ... and text that looks like a JSON escape: a report that is post-processed as text would mangle it
	// ... and a template action that is not a variable reference: the command is a template whether or
	// not the file declares variables
	src = fmt.Sprintf("echo OUT_%s_%d{{\"T\"}}%s_100%%d%%s'\\u0026<&>' && echo ERR_%s_%d_%%v >&2 && echo %s:%d >> \"$VLOG\"", t, k, v, t, k, t, k)
	expanded = strings.ReplaceAll(strings.ReplaceAll(src, "{{.VA}}", p.varVal(0)), `{{"T"}}`, "T")
	// the variable is echoed unquoted: the shell splits it into words, which echo joins with single blanks
	return src, expanded, fmt.Sprintf("OUT_%s_%dT%s_100%%d%%s\\u0026<&>\n", t, k, strings.Join(strings.Fields(vv), " ")), fmt.Sprintf("ERR_%s_%d_%%v\n", t, k)
}

func (p c20Prog) text() string {
	var sb strings.Builder
	for i := 0; i < p.nvars(); i++ {
		if i == 2 {
			fmt.Fprintf(&sb, "%s := exec(\"echo from-$DOTV\")\n", c20VarNames[i])
			continue
		}
		fmt.Fprintf(&sb, "%s := \"%s\"\n", c20VarNames[i], p.varVal(i))
	}
	sb.WriteString("\n")
	names := p.names()
	for i, n := range names {
		if d := p.doc(i); d != "" {
			sb.WriteString("# " + d + "\n")
		}
		var deps []string
		if p.Chain && i > 0 {
			deps = append(deps, names[i-1])
		}
		if p.FileDep && !(p.Mixed && i == 0) {
			deps = append(deps, `"`+n+`.txt"`)
		}
		if p.NoMatch && i == 0 {
			deps = append(deps, `"docs/**/*.nomatch"`)
		}
		fmt.Fprintf(&sb, "task %s(%s) {\n", n, strings.Join(deps, ", "))
		for k := 1; k <= p.ncmds(); k++ {
			src, _, _, _ := p.cmd(n, k)
			sb.WriteString("    " + src + "\n")
		}
		sb.WriteString("}\n\n")
	}
	return sb.String()
}

func c20Progs(tier string) []c20Prog {
	var out []c20Prog
	maxT := 5
	for nt := 1; nt <= maxT; nt++ {
		for _, docs := range []bool{false, true} {
			for _, def := range []bool{false, true} {
				for nc := 0; nc <= 2; nc++ {
					for nv := 0; nv <= 2; nv++ {
						for _, chain := range []bool{false, true} {
							if chain && nt == 1 {
								continue
							}
							if nt > 3 && (nc != 1 || nv != 1) && tier != "thorough" {
								continue
							}
							for _, fd := range []bool{true, false} {
								if !fd && tier != "thorough" && !(nt == 2 && nc == 1) {
									continue
								}
								out = append(out, c20Prog{NTasks: nt, Docs: docs, Default: def, NCmds: nc, NVars: nv, Chain: chain, FileDep: fd})
								if nc == 1 && nv == 0 && fd {
									out = append(out, c20Prog{NTasks: nt, Docs: docs, Default: def, NCmds: nc, NVars: nv, Chain: chain, FileDep: fd, NoMatch: true})
								}
								if nt <= 2 && nc <= 1 && nv == 0 && fd && !docs {
									// commands with outputs larger than any pipe or copy buffer
									for _, big := range []int{20, 300} {
										out = append(out, c20Prog{NTasks: nt, Default: def, NCmds: nc, Chain: chain, FileDep: fd, Big: big})
									}
								}
								if nt <= 2 && nc == 0 && nv == 0 && fd && !docs && !def {
									out = append(out, c20Prog{NTasks: nt, Chain: chain, FileDep: fd, Bg: true})
								}
								if nt >= 2 && nt <= 3 && nc >= 1 && nv == 0 && fd && !docs && !def {
									out = append(out, c20Prog{NTasks: nt, NCmds: nc, Chain: chain, FileDep: fd, Mixed: true})
								}
								if docs && nc == 1 && fd && nt <= 2 && nv == 2 {
									out = append(out, c20Prog{NTasks: nt, Docs: true, Default: def, NCmds: nc, NVars: nv, Chain: chain, FileDep: fd, Gaps: true})
								}
								if docs && nc == 1 && fd && (nt <= 3 || tier == "thorough") {
									// long docstrings and values, listed on terminals of several widths
									out = append(out, c20Prog{NTasks: nt, Docs: true, Default: def, NCmds: nc, NVars: nv, Chain: chain, FileDep: fd, Long: true})
								}
							}
						}
					}
				}
			}
		}
	}
	return out
}

type c20Obs struct{ cls, what string }

// closure of the requested task in declaration-based chain
func (p c20Prog) closure(req string) []string {
	names := p.names()
	idx := -1
	for i, n := range names {
		if n == req {
			idx = i
		}
	}
	if idx < 0 {
		return nil
	}
	if !p.Chain {
		return []string{req}
	}
	return append([]string{}, names[:idx+1]...)
}

func readLog(path string) []string {
	b, _ := os.ReadFile(path)
	if len(b) == 0 {
		return nil
	}
	return strings.Split(strings.TrimRight(string(b), "\n"), "\n")
}

// checkJSON verifies a --json report against the side-effect log.
func (p c20Prog) checkJSON(stdout string, req []string, log []string, expectSkipped map[string]bool) []c20Obs {
	var obs []c20Obs
	dec := json.NewDecoder(strings.NewReader(stdout))
	var doc any
	if err := dec.Decode(&doc); err != nil {
		return []c20Obs{{"json-not-parseable", fmt.Sprintf("stdout is not a JSON document: %v: %q", err, clip(stdout))}}
	}
	var extra any
	if err := dec.Decode(&extra); err != io.EOF {
		return []c20Obs{{"json-not-single-document", fmt.Sprintf("stdout holds more than one JSON document / trailing text: %q", clip(stdout))}}
	}
	if lead := strings.TrimLeft(stdout, " \t\r\n"); !strings.HasPrefix(lead, "[") {
		return []c20Obs{{"json-not-a-list", fmt.Sprintf("report is not a list: %q", clip(stdout))}}
	}
	list, _ := doc.([]any)
	want := map[string]bool{}
	for _, r := range req {
		for _, c := range p.closure(r) {
			want[c] = true
		}
	}
	var reported []string
	ranOrder := []string{}
	seenRan := map[string]bool{}
	for _, l := range log {
		t := l[:strings.IndexByte(l, ':')]
		if !seenRan[t] {
			seenRan[t] = true
			ranOrder = append(ranOrder, t)
		}
	}
	var reportedRan []string
	for _, el := range list {
		obj, ok := el.(map[string]any)
		if !ok {
			return []c20Obs{{"json-shape", "list element is not an object"}}
		}
		var name string
		var skipped, haveSkipped bool
		var results []any
		for _, v := range obj {
			switch x := v.(type) {
			case string:
				name = x
			case bool:
				skipped, haveSkipped = x, true
			case []any:
				results = x
			}
		}
		if !haveSkipped {
			obs = append(obs, c20Obs{"json-shape", fmt.Sprintf("task entry %v has no skipped flag", obj)})
		}
		reported = append(reported, name)
		if !want[name] {
			obs = append(obs, c20Obs{"json-extra-task", fmt.Sprintf("report lists task %q which is not part of the run %v", name, req)})
			continue
		}
		if skipped == seenRan[name] && p.ncmds() > 0 {
			obs = append(obs, c20Obs{"json-skipped-flag-wrong", fmt.Sprintf("task %s: skipped=%v but commands executed=%v", name, skipped, seenRan[name])})
		}
		if expectSkipped != nil && expectSkipped[name] != skipped {
			obs = append(obs, c20Obs{"json-skipped-flag-wrong", fmt.Sprintf("task %s: skipped=%v, expected %v in this run", name, skipped, expectSkipped[name])})
		}
		if skipped {
			if len(results) != 0 {
				obs = append(obs, c20Obs{"json-results-for-skipped-task", fmt.Sprintf("skipped task %s carries %d command results", name, len(results))})
			}
			continue
		}
		reportedRan = append(reportedRan, name)
		if len(results) != p.ncmds() {
			obs = append(obs, c20Obs{"json-command-count", fmt.Sprintf("task %s has %d commands, report lists %d", name, p.ncmds(), len(results))})
			continue
		}
		for k, r := range results {
			ro, _ := r.(map[string]any)
			var strs []string
			status, haveStatus := 0.0, false
			for _, v := range ro {
				switch x := v.(type) {
				case string:
					strs = append(strs, x)
				case float64:
					status, haveStatus = x, true
				}
			}
			_, exp, so, se := p.cmd(name, k+1)
			if so == "*" {
				continue
			}
			wantStrs := []string{exp, so, se}
			sort.Strings(strs)
			sort.Strings(wantStrs)
			if strings.Join(strs, "\x00") != strings.Join(wantStrs, "\x00") {
				if len(so) > 2000 {
					got, want := strings.Join(strs, "\x00"), strings.Join(wantStrs, "\x00")
					d := 0
					for d < len(got) && d < len(want) && got[d] == want[d] {
						d++
					}
					obs = append(obs, c20Obs{"json-command-fields", fmt.Sprintf("task %s command %d (%d KiB per stream): the reported text / stdout / stderr have %d bytes, expected %d; first difference at offset %d: %q vs %q", name, k+1, p.Big, len(got), len(want), d, clip(got[d:]), clip(want[d:]))})
				} else {
					obs = append(obs, c20Obs{"json-command-fields", fmt.Sprintf("task %s command %d: report has %q, expected interpolated text / stdout / stderr %q", name, k+1, strs, wantStrs)})
				}
			}
			if !haveStatus || status != 0 {
				obs = append(obs, c20Obs{"json-status", fmt.Sprintf("task %s command %d: status %v (present=%v), expected 0", name, k+1, status, haveStatus)})
			}
		}
	}
	if len(reported) != len(want) {
		obs = append(obs, c20Obs{"json-task-set", fmt.Sprintf("run of %v has tasks %v but the report lists %v", req, keys(want), reported)})
	}
	for _, n := range reported {
		delete(want, n)
	}
	if len(want) > 0 {
		obs = append(obs, c20Obs{"json-task-missing", fmt.Sprintf("tasks %v ran or were selected but are missing from the report %v", keys(want), reported)})
	}
	if p.ncmds() > 0 && strings.Join(reportedRan, ",") != strings.Join(ranOrder, ",") {
		obs = append(obs, c20Obs{"json-order", fmt.Sprintf("report lists executed tasks in order %v, commands executed in order %v", reportedRan, ranOrder)})
	}
	return obs
}

func keys(m map[string]bool) []string {
	var k []string
	for x := range m {
		k = append(k, x)
	}
	sort.Strings(k)
	return k
}

func clip(s string) string {
	if len(s) > 200 {
		return s[:200] + "..."
	}
	return s
}

// checkListing verifies `--show` style output.
func (p c20Prog) checkListing(stdout string) []c20Obs {
	lines := strings.Split(strings.TrimRight(stdout, "\n"), "\n")
	names := append([]string{}, p.names()...)
	docOf := map[string]string{}
	for i, n := range p.names() {
		docOf[n] = p.doc(i)
	}
	sort.Strings(names)
	var got []string
	var obs []c20Obs
	for _, l := range lines {
		f := strings.Fields(l)
		if len(f) == 0 {
			continue
		}
		if _, ok := docOf[f[0]]; ok {
			got = append(got, f[0])
			if d := afterName(l, f[0]); d != docOf[f[0]] {
				obs = append(obs, c20Obs{"show-docstring", fmt.Sprintf("task %s listed with description %q, its docstring is %q", f[0], d, docOf[f[0]])})
			}
		}
	}
	if strings.Join(got, ",") != strings.Join(names, ",") {
		obs = append(obs, c20Obs{"show-task-list", fmt.Sprintf("listing has tasks %v, expected each defined task once in sorted order %v; output %q", got, names, clip(stdout))})
	}
	return obs
}

// checkVars verifies `--vars` output.
func (p c20Prog) checkVars(stdout string) []c20Obs {
	var obs []c20Obs
	var got []string
	for _, l := range strings.Split(stdout, "\n") {
		f := strings.Fields(l)
		for i := 0; i < p.nvars(); i++ {
			if len(f) > 0 && f[0] == c20VarNames[i] {
				got = append(got, f[0])
				if v := afterName(l, f[0]); v != p.varVal(i) {
					obs = append(obs, c20Obs{"vars-value", fmt.Sprintf("--vars lists %s with value %q, expected %q", f[0], v, p.varVal(i))})
				}
			}
		}
	}
	wantV := append([]string{}, c20VarNames[:p.nvars()]...)
	sort.Strings(wantV)
	if strings.Join(got, ",") != strings.Join(wantV, ",") {
		obs = append(obs, c20Obs{"vars-list", fmt.Sprintf("--vars lists %v, expected each variable once sorted %v: %q", got, wantV, clip(stdout))})
	}
	return obs
}

func c20Run(root string, p c20Prog) (obs []c20Obs, inv int) {
	t := bin.Tree{Root: root}
	t.Reset()
	proj := t.Mkdir("home/w/proj")
	ctl := t.Mkdir("ctl")
	home := filepath.Join(root, "home")
	t.File("home/w/proj/spokfile", p.text())
	t.File("home/w/proj/.env", "DOTV=staging\n")
	for _, n := range p.names() {
		t.File("home/w/proj/"+n+".txt", "v0\n")
	}
	if p.Big > 0 {
		t.File("home/w/proj/big.out", c20Big(p.Big, "out"))
		t.File("home/w/proj/big.err", c20Big(p.Big, "err"))
	}
	vlog := filepath.Join(ctl, "vlog")
	env := []string{"VLOG=" + vlog, "VCTL=" + ctl}
	names := p.names()
	last := names[len(names)-1]
	add := func(prefix string, o []c20Obs) {
		for _, x := range o {
			x.what = prefix + ": " + x.what
			obs = append(obs, x)
		}
	}
	died := func(o bin.Out, what string) bool {
		if o.Died() || o.Exit != 0 {
			obs = append(obs, c20Obs{"unexpected-failure", fmt.Sprintf("%s: exit=%d signal=%s stderr=%s", what, o.Exit, o.Signal, firstLines(o.Stderr, 3))})
			return true
		}
		return false
	}
	// --show and --vars (before anything ran)
	o := bin.Run(proj, home, env, "--show")
	inv++
	if !died(o, "--show") {
		add("--show", p.checkListing(o.Stdout))
		if l := readLog(vlog); len(l) > 0 {
			obs = append(obs, c20Obs{"show-ran-commands", fmt.Sprintf("--show executed commands %v", l)})
		}
	}
	o = bin.Run(proj, home, env, "--vars")
	inv++
	if !died(o, "--vars") {
		add("--vars", p.checkVars(o.Stdout))
	}
	// the same listings on terminals of several widths
	if p.Long {
		for _, cols := range []int{40, 60, 80, 132} {
			for _, a := range [][]string{{"--show"}, {"--vars"}, {}} {
				if len(a) == 0 && p.Default {
					continue
				}
				po, ok := bin.RunPty(proj, home, env, cols, a...)
				if !ok {
					c20NoPty.Store(true)
					continue
				}
				inv++
				what := fmt.Sprintf("%v on a %d-column terminal", a, cols)
				if died(po, what) {
					continue
				}
				if len(a) == 1 && a[0] == "--vars" {
					add(what, p.checkVars(po.Stdout))
				} else {
					add(what, p.checkListing(po.Stdout))
				}
			}
		}
		if l := readLog(vlog); len(l) > 0 {
			obs = append(obs, c20Obs{"show-ran-commands", fmt.Sprintf("listing on a terminal executed commands %v", l)})
		}
	}
	// no task names: default task or listing
	os.Remove(vlog)
	o = bin.Run(proj, home, env)
	inv++
	if !died(o, "no arguments") {
		l := readLog(vlog)
		if p.Default {
			ran := map[string]bool{}
			for _, x := range l {
				ran[x[:strings.IndexByte(x, ':')]] = true
			}
			wantRan := map[string]bool{}
			for _, c := range p.closure("default") {
				wantRan[c] = true
			}
			if p.ncmds() > 0 && strings.Join(keys(ran), ",") != strings.Join(keys(wantRan), ",") {
				obs = append(obs, c20Obs{"default-task-not-run", fmt.Sprintf("a task named default exists; without arguments tasks %v ran, expected %v", keys(ran), keys(wantRan))})
			}
		} else {
			if len(l) > 0 {
				obs = append(obs, c20Obs{"listing-ran-commands", fmt.Sprintf("no default task: spok without arguments executed %v", l)})
			}
			add("no arguments (listing)", p.checkListing(o.Stdout))
		}
	}
	// --json without task names: the default task's run is reported like any other
	if p.Default {
		os.RemoveAll(filepath.Join(proj, ".spok"))
		os.Remove(vlog)
		o = bin.Run(proj, home, env, "--json")
		inv++
		if !died(o, "--json without task names") {
			add("--json without task names (default task)", p.checkJSON(o.Stdout, []string{"default"}, readLog(vlog), nil))
		}
	}
	// --quiet with the actions that are not runs: nothing on standard output either
	for _, a := range [][]string{{"--init", "--quiet"}, {"--fmt", "--quiet"}, {"--quiet", "--clean"}} {
		dir := proj
		if a[0] == "--init" {
			dir = t.Mkdir("home/w/fresh")
			os.Remove(filepath.Join(dir, "spokfile"))
			os.Remove(filepath.Join(dir, ".gitignore"))
		}
		if a[1] == "--clean" && p.Default {
			continue // --clean is not what this program is about when a task may be named clean; keep to the plain case
		}
		qo := bin.Run(dir, home, env, a...)
		inv++
		if qo.Exit == 0 && !qo.Died() && qo.Stdout != "" {
			obs = append(obs, c20Obs{"quiet-not-quiet", fmt.Sprintf("`spok %s` wrote to standard output: %q", strings.Join(a, " "), clip(qo.Stdout))})
		}
	}
	t.File("home/w/proj/spokfile", p.text())
	// --quiet
	os.RemoveAll(filepath.Join(proj, ".spok"))
	os.Remove(vlog)
	o = bin.Run(proj, home, env, last, "--quiet")
	inv++
	if !died(o, "--quiet") {
		if o.Stdout != "" {
			obs = append(obs, c20Obs{"quiet-not-quiet", fmt.Sprintf("--quiet wrote to standard output: %q", clip(o.Stdout))})
		}
		if p.ncmds() > 0 && len(readLog(vlog)) == 0 {
			obs = append(obs, c20Obs{"quiet-did-not-run", "--quiet run executed nothing"})
		}
	}
	// --json, first and repeated run
	os.RemoveAll(filepath.Join(proj, ".spok"))
	for rep := 0; rep < 2; rep++ {
		os.Remove(vlog)
		req := []string{last}
		if !p.Chain && len(names) > 1 {
			req = []string{names[0], last}
		}
		o = bin.Run(proj, home, env, append(append([]string{}, req...), "--json")...)
		inv++
		if died(o, "--json") {
			break
		}
		var exp map[string]bool
		if p.FileDep {
			exp = map[string]bool{}
			for _, r := range req {
				for _, c := range p.closure(r) {
					exp[c] = rep == 1
				}
			}
			if p.Mixed {
				exp[names[0]] = false // no file dependency: executes every time
			}
		}
		add(fmt.Sprintf("--json run %d of %v", rep+1, req), p.checkJSON(o.Stdout, req, readLog(vlog), exp))
	}
	return
}

var c20SlotMu [64]sync.Mutex

// c20NoPty: no pseudo terminal could be opened (the terminal part was skipped)
var c20NoPty atomic.Bool

func c20Check(tier string) int {
	run := ev.NewRun("C20", tier, "model_checking", "cfgmc-c20")
	progs := c20Progs(tier)
	var mu sync.Mutex
	var invocations int64
	outcomes := map[string]int64{}
	pool.Parallel(len(progs), func(i int) {
		slot := i % 64
		c20SlotMu[slot].Lock()
		root := filepath.Join(pool.Scratch, fmt.Sprintf("c20.%d", slot))
		os.MkdirAll(root, 0o755)
		obs, inv := c20Run(root, progs[i])
		c20SlotMu[slot].Unlock()
		mu.Lock()
		invocations += int64(inv)
		if len(obs) == 0 {
			outcomes["ok"]++
		}
		mu.Unlock()
		for _, o := range obs {
			var m map[string]any
			json.Unmarshal(pool.MustJSON(progs[i]), &m)
			mu.Lock()
			outcomes["violation:"+o.cls]++
			mu.Unlock()
			run.Report(ev.Violation{Key: string(pool.MustJSON(progs[i])) + " " + o.cls, Class: o.cls, What: fmt.Sprintf("program %+v: %s", progs[i], o.what), Case: m})
		}
		if i%41 == 7 {
			run.Sample(map[string]any{"program": progs[i], "spokfile": progs[i].text()})
		}
	})
	run.Set("states", int64(len(progs)))
	run.Set("transitions", invocations)
	run.Set("traces_validated_against_impl", invocations)
	run.Set("evaluations", invocations)
	run.Set("distinct_nontrivial", int64(len(progs)))
	run.Set("outcomes", outcomes)
	run.Set("pseudo_terminal_available", !c20NoPty.Load())
	if c20NoPty.Load() {
		run.Set("exhaustive", false)
		run.Set("cap", "no pseudo terminal could be opened: the listings on terminals were not explored")
	}
	run.Set("rule", "states = programs: 1..5 tasks x docstrings y/n x a task named default y/n x 0..2 commands (each printing distinct markers to stdout and stderr and appending to a harness log) x 0..2 variables x independent/chain x file dependencies y/n; transitions = invocations of the built binary per program: --show, --vars, no arguments, --quiet, --json twice (the repeat shows skipped tasks); further programs whose tasks have a command writing 20 KiB / 300 KiB of numbered lines to each stream (reported text compared byte for byte), and programs with docstrings and values longer than a terminal line, listed with --show, --vars and no arguments on pseudo terminals 40, 60, 80 and 132 columns wide as well as into a pipe; JSON field names are not prescribed (fields are recognised by type and content)")
	run.Assumes("NO_COLOR=1 gives uncoloured listings (colour sequences are stripped from terminal output before comparing)", "the --quiet --json combination is not exercised (the statement gives it two answers)")
	return run.Finish()
}

func c20Replay(path string) int {
	var v ev.Violation
	data, _ := os.ReadFile(path)
	json.Unmarshal(data, &v)
	var p c20Prog
	json.Unmarshal(pool.MustJSON(v.Case), &p)
	root := filepath.Join(pool.Scratch, "replay")
	os.MkdirAll(root, 0o755)
	fmt.Printf("replaying C20: %+v\n%s", p, p.text())
	obs, _ := c20Run(root, p)
	for _, o := range obs {
		fmt.Printf("  %s: %s\n", o.cls, o.what)
	}
	if len(obs) > 0 {
		fmt.Printf("VIOLATION property=C20 replay=%s\n", path)
		return 1
	}
	fmt.Println("no violation on replay")
	return 0
}

var _ = bytes.NewReader
