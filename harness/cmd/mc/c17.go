package main

import (
	"encoding/json"
	"fmt"
	"os"
	"path/filepath"
	"strconv"
	"strings"
	"sync"
	"time"

	"github.com/FollowTheProcess/spok/file"

	"verifharness/internal/bin"
	"verifharness/internal/ev"
	"verifharness/internal/pool"
)

func init() {
	checks["C17"] = c17Check
	workers["c17"] = c17Worker
	replays["cfgmc-c17"] = c17Replay
}

// A level of the chain: other entries sorting before/after "spokfile", and the
// spokfile itself (absent / regular file / directory).
type c17Level struct {
	Before bool `json:"before"`
	After  bool `json:"after"`
	Spok   int  `json:"spok"` // 0 none, 1 regular file, 2 directory
}

func c17LevelOf(v int) c17Level {
	return c17Level{Before: v&1 != 0, After: v&2 != 0, Spok: v / 4}
}

const c17Depth = 4

// countingLogger turns "visits the same directory twice" into a deterministic
// non-termination verdict (Find logs each directory it looks in).
type countingLogger struct {
	mu     sync.Mutex
	seen   map[string]int
	calls  int
	loop   string
	loopCh chan struct{}
}

func (l *countingLogger) Sync() error { return nil }

// Debug may be called from any goroutine the code under test cares to start. When the
// same directory is announced a third time (or after 10000 announcements) the search is
// declared non-terminating: the caller is told through loopCh and the announcing goroutine
// is parked for good.
func (l *countingLogger) Debug(format string, args ...any) {
	l.mu.Lock()
	l.calls++
	msg := fmt.Sprintf(format, args...)
	l.seen[msg]++
	over := l.seen[msg] > 2 || l.calls > 10000
	if over && l.loop == "" {
		l.loop = msg
		close(l.loopCh)
	}
	l.mu.Unlock()
	if over {
		select {}
	}
}

type c17Out struct {
	Path    string
	Err     string
	Loop    string
	Panic   string
	Visited int
}

func c17Find(start, stop string) (out c17Out) {
	lg := &countingLogger{seen: map[string]int{}, loopCh: make(chan struct{})}
	done := make(chan c17Out, 1)
	go func() {
		var o c17Out
		defer func() {
			if r := recover(); r != nil {
				o.Panic = fmt.Sprint(r)
			}
			done <- o
		}()
		p, err := file.Find(lg, start, stop)
		o.Path = p
		if err != nil {
			o.Err = err.Error()
		}
	}()
	select {
	case out = <-done:
	case <-lg.loopCh:
		out.Loop = lg.loop
	}
	lg.mu.Lock()
	out.Visited = lg.calls
	lg.mu.Unlock()
	return out
}

type c17Case struct {
	Levels     []int  `json:"levels"`                // variant per level, top first
	Start      int    `json:"start"`                 // level index
	Stop       int    `json:"stop"`                  // level index, or -1 = unrelated directory
	ChildAfter bool   `json:"child_after,omitempty"` // chain directories sort after "spokfile"
	Name       string `json:"name,omitempty"`        // name of the chain directories when neither "k" nor "zz" (e.g. "..d": starts with two dots)
	StartSp    int    `json:"start_sp,omitempty"`    // how the start directory is spelled (c17Spell)
	StopSp     int    `json:"stop_sp,omitempty"`     // how the stop directory is spelled
}

var c17SpellNames = []string{"clean", "trailing-slash", "trailing-slash-dot", "doubled-separator", "down-and-up", "relative-to-the-working-directory"}

// c17Spell: the same directory written differently. child is the name of a
// sub-directory that exists ("" if none).
func c17Spell(dir string, sp int, child string) string {
	switch sp {
	case 1:
		return dir + "/"
	case 2:
		return dir + "/."
	case 3:
		return filepath.Dir(dir) + "//" + filepath.Base(dir)
	case 4:
		if child != "" {
			return dir + "/" + child + "/.."
		}
	case 5:
		if wd, err := os.Getwd(); err == nil {
			if rel, err := filepath.Rel(wd, dir); err == nil {
				return rel
			}
		}
	}
	return dir
}

// c17Oracle: dirs[i] is the directory of level i.
func c17Oracle(c c17Case, dirs []string, unrelated string, out c17Out) (cls, what string) {
	if out.Loop != "" {
		return "does-not-terminate", fmt.Sprintf("search keeps revisiting a directory (%s)", out.Loop)
	}
	if out.Panic != "" {
		return "panic", out.Panic
	}
	nearest := func(from, to int) string { // search levels from..to (upwards), "" if none
		for i := from; i >= to; i-- {
			if c17LevelOf(c.Levels[i]).Spok == 1 {
				return filepath.Join(dirs[i], "spokfile")
			}
		}
		return ""
	}
	if c.Stop >= 0 && c.Stop <= c.Start {
		// start is at or below stop: the answer is fully determined
		want := nearest(c.Start, c.Stop)
		if want == "" {
			if out.Err == "" {
				return "found-outside-range", fmt.Sprintf("no regular spokfile between start and stop, but %s was returned", out.Path)
			}
			return "", ""
		}
		if out.Err != "" {
			return "enclosing-spokfile-missed", fmt.Sprintf("spokfile %s lies between start and stop but the search reported: %s", want, firstLine(out.Err))
		}
		if out.Path != want {
			return "wrong-spokfile", fmt.Sprintf("nearest is %s, got %s", want, out.Path)
		}
		return "", ""
	}
	// start is not below stop: must terminate; an answer, if any, is the nearest at or above start
	if out.Err != "" {
		return "", ""
	}
	want := nearest(c.Start, 0)
	if out.Path != want {
		return "wrong-spokfile", fmt.Sprintf("start not below stop: nearest at or above start is %q, got %s", want, out.Path)
	}
	return "", ""
}

type c17Result struct {
	Chains   int64            `json:"chains"`
	Calls    int64            `json:"calls"`
	Nontriv  int64            `json:"nontriv"`
	Outcomes map[string]int64 `json:"outcomes"`
	Viol     []ev.Violation   `json:"viol"`
	Samples  []map[string]any `json:"samples"`
}

func (c c17Case) dirName() string {
	if c.Name != "" {
		return c.Name
	}
	return c17Name(c.ChildAfter)
}

func c17Name(childAfter bool) string {
	if childAfter {
		return "zz"
	}
	return "k"
}

// build level i inside dir (creating the entries), returns cleanup func
func c17Populate(dir string, v int) {
	l := c17LevelOf(v)
	if l.Before {
		os.WriteFile(filepath.Join(dir, "a.txt"), nil, 0o644)
	}
	if l.After {
		os.WriteFile(filepath.Join(dir, "t.txt"), nil, 0o644)
	}
	switch l.Spok {
	case 1:
		os.WriteFile(filepath.Join(dir, "spokfile"), []byte("# s\n"), 0o644)
	case 2:
		os.Mkdir(filepath.Join(dir, "spokfile"), 0o755)
	}
}

func c17Clear(dir string) {
	for _, n := range []string{"a.txt", "t.txt", "spokfile"} {
		os.RemoveAll(filepath.Join(dir, n))
	}
}

func c17RunCase(c c17Case, dirs []string, unrelated string, res *c17Result) {
	stop := unrelated
	if c.Stop >= 0 {
		stop = dirs[c.Stop]
	}
	child := func(level int) string {
		if level >= 0 && level+1 < len(dirs) {
			return filepath.Base(dirs[level+1])
		}
		return ""
	}
	stopChild := child(c.Stop)
	if c.Stop < 0 {
		stopChild = ""
	}
	out := c17Find(c17Spell(dirs[c.Start], c.StartSp, child(c.Start)), c17Spell(stop, c.StopSp, stopChild))
	res.Calls++
	if out.Visited > 1 {
		res.Nontriv++
	}
	cls, what := c17Oracle(c, dirs, unrelated, out)
	key := "ok-found"
	if out.Err != "" {
		key = "ok-notfound"
	}
	if cls != "" && (c.StartSp != 0 || c.StopSp != 0) {
		cls += "-path-not-in-shortest-form"
	}
	if cls != "" {
		key = "violation:" + cls
		if len(res.Viol) < 40 {
			var m map[string]any
			json.Unmarshal(pool.MustJSON(c), &m)
			res.Viol = append(res.Viol, ev.Violation{Engine: "cfgmc-c17", Key: fmt.Sprintf("levels=%v start=%d stop=%d childAfter=%v spell=%d/%d", c.Levels, c.Start, c.Stop, c.dirName(), c.StartSp, c.StopSp), Class: cls,
				What: fmt.Sprintf("chain %s start=level%d (spelled %s) stop=%s (spelled %s): %s", c17Describe(c), c.Start, c17SpellNames[c.StartSp], c17StopName(c.Stop), c17SpellNames[c.StopSp], what), Case: m})
		}
	}
	res.Outcomes[key]++
}

func c17StopName(s int) string {
	if s < 0 {
		return "unrelated-dir"
	}
	return "level" + strconv.Itoa(s)
}

func c17Describe(c c17Case) string {
	var p []string
	for i, v := range c.Levels {
		l := c17LevelOf(v)
		s := fmt.Sprintf("L%d{", i)
		if l.Before {
			s += "a.txt "
		}
		if l.After {
			s += "t.txt "
		}
		s += []string{"", "spokfile", "spokfile/"}[l.Spok] + "}"
		p = append(p, s)
	}
	return strings.Join(p, "/")
}

// worker: mc worker c17 <tier> <top-level variant lo> <hi>
func c17Worker(args []string) {
	tier := args[0]
	lo, _ := strconv.Atoi(args[1])
	hi, _ := strconv.Atoi(args[2])
	root := os.Getenv("VERIF_SANDBOX")
	res := c17Result{Outcomes: map[string]int64{}}
	prog := pool.OpenProgress()
	prog.Watchdog(60 * time.Second)
	childNames := []string{"k", "..d"}
	if tier == "thorough" {
		childNames = []string{"k", "zz", "..d"}
	}
	for _, name := range childNames {
		after := name == "zz"
		bareOnly := name == "..d" && tier != "thorough" // quick: the unusual name with the 16 chains of bare levels
		base := filepath.Join(root, "w"+name)
		unrelated := filepath.Join(base, "u", "v")
		os.MkdirAll(unrelated, 0o755)
		dirs := make([]string, c17Depth)
		d := filepath.Join(base, "c")
		for i := 0; i < c17Depth; i++ {
			d = filepath.Join(d, name)
			dirs[i] = d
		}
		os.MkdirAll(dirs[c17Depth-1], 0o755)
		os.Chdir(base)
		levels := make([]int, c17Depth)
		var rec func(i int)
		rec = func(i int) {
			if i == c17Depth {
				res.Chains++
				prog.Announce(int64(levels[0]), int64(levels[1]))
				for start := 0; start < c17Depth; start++ {
					for stop := -1; stop < c17Depth; stop++ {
						c := c17Case{Levels: append([]int{}, levels...), Start: start, Stop: stop, ChildAfter: after}
						if name != "k" && name != "zz" {
							c.Name = name
						}
						c17RunCase(c, dirs, unrelated, &res)
						// the same directories under other spellings: all chains in the thorough tier,
						// the 16 chains of bare {nothing, spokfile} levels in the quick one
						if tier != "thorough" {
							bare := true
							for _, v := range levels {
								if v != 0 && v != 4 {
									bare = false
								}
							}
							if !bare {
								continue
							}
						}
						// both given relative to the working directory (which is the directory above the chain)
						c.StartSp, c.StopSp = 5, 5
						c17RunCase(c, dirs, unrelated, &res)
						for ssp := 0; ssp < 5; ssp++ {
							for tsp := 0; tsp < 5; tsp++ {
								if ssp == 0 && tsp == 0 {
									continue
								}
								c.StartSp, c.StopSp = ssp, tsp
								c17RunCase(c, dirs, unrelated, &res)
							}
						}
						if len(res.Samples) < 2 && res.Chains%97 == 5 && start == 3 && stop == 0 {
							res.Samples = append(res.Samples, map[string]any{"chain": c17Describe(c), "start": start, "stop": c17StopName(stop)})
						}
					}
				}
				return
			}
			l, h := 0, 12
			if i == 0 {
				l, h = lo, hi
			}
			for v := l; v < h; v++ {
				if bareOnly && v != 0 && v != 4 {
					continue
				}
				levels[i] = v
				c17Populate(dirs[i], v)
				rec(i + 1)
				c17Clear(dirs[i])
			}
		}
		rec(0)
	}
	os.Stdout.Write(pool.MustJSON(res))
}

func c17Check(tier string) int {
	run := ev.NewRun("C17", tier, "model_checking", "cfgmc-c17")
	// environment sanity: no spokfile above the scratch area
	for d := pool.Scratch; ; d = filepath.Dir(d) {
		if st, err := os.Stat(filepath.Join(d, "spokfile")); err == nil && !st.IsDir() {
			ev.Fatal("a file named spokfile exists in %s, above the sandbox", d)
		}
		if d == filepath.Dir(d) {
			break
		}
	}
	var mu sync.Mutex
	total := c17Result{Outcomes: map[string]int64{}}
	// shard on (level0 variant) x (sub-shards of level 1 are inside the worker)
	pool.Parallel(12, func(k int) {
		sbroot := filepath.Join(pool.Scratch, fmt.Sprintf("c17.%d", k))
		os.MkdirAll(sbroot, 0o777)
		pool.ChownNobody(sbroot)
		defer os.RemoveAll(sbroot)
		out := pool.RunWorker([]string{"c17", tier, strconv.Itoa(k), strconv.Itoa(k + 1)}, nil, budget(tier), true, "VERIF_SANDBOX="+sbroot)
		if out.TimedOut && out.ExitCode != 3 {
			// the wall-clock budget ran out (a loaded machine, a slower tree): not a verdict about the property
			run.Add("workers_out_of_budget", 1)
			run.Set("exhaustive", false)
			run.Set("cap", "a worker exceeded the wall-clock budget of this tier; its share of the space was not completed")
			return
		}
		if out.Crashed() {
			cls := "process-crash"
			if out.ExitCode == 3 {
				cls = "does-not-terminate" // the worker's own watchdog: 60 s inside one search
			}
			run.Report(ev.Violation{Key: fmt.Sprintf("worker level0=%d level1=%d", out.Progress[0], out.Progress[1]), Class: cls,
				What: fmt.Sprintf("worker died or hung (exit=%d signal=%s timeout=%v) in chains starting %s/%s: %s", out.ExitCode, out.Signal, out.TimedOut,
					c17Describe(c17Case{Levels: []int{int(out.Progress[0])}}), c17Describe(c17Case{Levels: []int{int(out.Progress[1])}}), firstLines(string(out.Stderr), 5)),
				Case: map[string]any{"levels": []int64{out.Progress[0], out.Progress[1]}}})
			return
		}
		var r c17Result
		if err := json.Unmarshal(out.Stdout, &r); err != nil {
			ev.Fatal("bad worker output: %v %s", err, out.Stderr)
		}
		mu.Lock()
		total.Chains += r.Chains
		total.Calls += r.Calls
		total.Nontriv += r.Nontriv
		for k, v := range r.Outcomes {
			total.Outcomes[k] += v
		}
		if len(total.Samples) < 6 {
			total.Samples = append(total.Samples, r.Samples...)
		}
		mu.Unlock()
		for _, v := range r.Viol {
			run.Report(v)
		}
	})
	binCalls := c17Binary(run)
	run.Set("binary_invocations", binCalls)
	run.Set("deep_chain_calls", c17Deep(run))
	if f := os.Getenv("VERIF_C17_SCHED"); f != "" {
		var sp struct {
			Calls  int64          `json:"calls"`
			Execs  int64          `json:"execs"`
			Budget int64          `json:"workers_out_of_budget"`
			Viol   []ev.Violation `json:"viol"`
		}
		data, err := os.ReadFile(f)
		if err != nil || json.Unmarshal(data, &sp) != nil {
			ev.Fatal("C17 schedule part result unreadable: %v", err)
		}
		for _, v := range sp.Viol {
			run.Report(v)
		}
		if sp.Budget > 0 {
			run.Set("exhaustive", false)
			run.Set("cap", "a worker of the schedule part exceeded the wall-clock budget")
		}
		run.Set("schedule_part", map[string]any{"find_calls": sp.Calls, "schedules_explored": sp.Execs,
			"what": "file.Find (mechanically rewritten: go statements, channels, sync and sync/atomic operations are scheduling points) for every chain of depth 3 x start x stop at or above start, under EVERY interleaving: same, correct answer on all of them, no deadlock / leak / panic. Find is sequential today, so this is one schedule per call"})
	}
	for _, s := range total.Samples {
		run.Sample(s)
	}
	if len(total.Samples) == 0 {
		run.Sample("no sample")
	}
	run.Set("states", total.Chains)
	run.Set("transitions", total.Calls)
	run.Set("traces_validated_against_impl", total.Calls)
	run.Set("evaluations", total.Calls)
	run.Set("distinct_nontrivial", total.Nontriv)
	run.Set("outcomes", total.Outcomes)
	run.Set("rule", "states = directory chains of depth 4, each level independently one of 12 contents ({nothing, a file sorting before, after, both} x {no spokfile, regular file, directory named spokfile}); transitions = file.Find(start, stop) calls for every start level x stop in {every level, an unrelated directory} (also with chain directories named '..d'; thorough: also with names sorting after 'spokfile'), and with start and stop each spelled in five ways (clean, trailing slash, trailing /., doubled separator, down into a sub-directory and up again) for the 16 chains of bare levels (thorough: all chains); non-termination is a deterministic verdict (a counting logger sees a directory visited a third time); non-trivial = search that looks in more than one directory")
	run.Assumes("no file named spokfile exists above the sandbox (checked)", "Find keeps logging each directory it looks in; a non-logging implementation is still covered by the worker watchdog (60 s)")
	return run.Finish()
}

// c17Deep: a start directory 1..300 levels below the only spokfile (and below stop): the
// search has to climb all the way, however far that is.
func c17Deep(run *ev.Run) int64 {
	top := filepath.Join(pool.Scratch, "c17deep")
	os.RemoveAll(top)
	defer os.RemoveAll(top)
	d := top
	var dirs []string
	for i := 0; i <= 300; i++ {
		dirs = append(dirs, d)
		d = filepath.Join(d, "k")
	}
	os.MkdirAll(dirs[300], 0o755)
	var calls int64
	for _, withSpok := range []bool{true, false} {
		if withSpok {
			os.WriteFile(filepath.Join(top, "spokfile"), []byte("# s\n"), 0o644)
		} else {
			os.Remove(filepath.Join(top, "spokfile"))
		}
		for _, depth := range []int{1, 2, 31, 32, 33, 63, 64, 65, 127, 128, 129, 255, 256, 257, 300} {
			out := c17Find(dirs[depth], top)
			calls++
			want := filepath.Join(top, "spokfile")
			key := fmt.Sprintf("deep chain depth=%d spokfile=%v", depth, withSpok)
			c := map[string]any{"deep": depth, "spokfile": withSpok}
			switch {
			case out.Loop != "" || out.Panic != "":
				run.Report(ev.Violation{Key: key, Class: "does-not-terminate", What: fmt.Sprintf("start %d levels below stop: %s%s", depth, out.Loop, out.Panic), Case: c})
			case withSpok && out.Err != "":
				run.Report(ev.Violation{Key: key, Class: "enclosing-spokfile-missed", What: fmt.Sprintf("the spokfile is in the stop directory, %d levels above the start directory: the search reported %s", depth, firstLine(out.Err)), Case: c})
			case withSpok && out.Path != want:
				run.Report(ev.Violation{Key: key, Class: "wrong-spokfile", What: fmt.Sprintf("start %d levels below stop: nearest is %s, got %s", depth, want, out.Path), Case: c})
			case !withSpok && out.Err == "":
				run.Report(ev.Violation{Key: key, Class: "found-outside-range", What: fmt.Sprintf("no spokfile between start and stop (%d levels) but %s was returned", depth, out.Path), Case: c})
			}
		}
	}
	return calls
}

func c17Replay(path string) int {
	{
		var v ev.Violation
		data, _ := os.ReadFile(path)
		json.Unmarshal(data, &v)
		if _, deep := v.Case["deep"]; deep {
			fmt.Println("this finding came from the deep-chain part of C17 (30 calls): re-run the check")
			return 2
		}
	}
	var v ev.Violation
	data, _ := os.ReadFile(path)
	json.Unmarshal(data, &v)
	var c c17Case
	json.Unmarshal(pool.MustJSON(v.Case), &c)
	if len(c.Levels) != c17Depth {
		fmt.Println("replay file describes a worker crash; re-run the check")
		return 2
	}
	base := filepath.Join(pool.Scratch, "replay")
	unrelated := filepath.Join(base, "u", "v")
	os.MkdirAll(unrelated, 0o755)
	dirs := make([]string, c17Depth)
	d := filepath.Join(base, "c")
	for i := 0; i < c17Depth; i++ {
		d = filepath.Join(d, c.dirName())
		dirs[i] = d
	}
	os.MkdirAll(d, 0o755)
	for i, lv := range c.Levels {
		c17Populate(dirs[i], lv)
	}
	res := c17Result{Outcomes: map[string]int64{}}
	fmt.Printf("replaying C17: chain %s start=level%d (%s) stop=%s (%s)\n", c17Describe(c), c.Start, c17SpellNames[c.StartSp], c17StopName(c.Stop), c17SpellNames[c.StopSp])
	c17RunCase(c, dirs, unrelated, &res)
	if len(res.Viol) > 0 {
		fmt.Printf("VIOLATION property=C17 replay=%s\n  %s\n", path, res.Viol[0].What)
		return 1
	}
	fmt.Println("no violation on replay")
	return 0
}

// c17Binary: discovery as the command line does it (start = cwd, stop = $HOME), with
// plain paths and with $HOME / the working directory reached through a symbolic link.
// Every subset of {a directory above home, home, two levels below} holding a spokfile
// x every start level x both path styles, through `spok --show`.
func c17Binary(run *ev.Run) int64 {
	root := filepath.Join(pool.Scratch, "c17bin")
	t := bin.Tree{Root: root}
	var calls int64
	for mask := 0; mask < 16; mask++ {
		t.Reset()
		t.Mkdir("real/home/L1/L2")
		os.Symlink(filepath.Join(root, "real/home"), filepath.Join(root, "homelink"))
		os.Lchown(filepath.Join(root, "homelink"), 65534, 65534)
		levels := []string{"real", "real/home", "real/home/L1", "real/home/L1/L2"} // index 0 is above home
		for i, l := range levels {
			if mask&(1<<i) != 0 {
				t.File(l+"/spokfile", fmt.Sprintf("# level %d\ntask level%s() {\n    echo x\n}\n", i, string(rune('a'+i))))
			}
		}
		for start := 1; start <= 3; start++ {
			for _, style := range []string{"real", "link", "home-trailing-slash", "home-doubled-separator", "cwd-trailing-slash", "cwd-doubled-separator", "cwd-down-and-up", "cwd-through-self-link", "unreadable-1", "unreadable-2", "unreadable-3"} {
				home := filepath.Join(root, "real/home")
				cwd := filepath.Join(root, levels[start])
				unreadable := 0
				switch style {
				case "link":
					home = filepath.Join(root, "homelink")
					cwd = filepath.Join(home, strings.TrimPrefix(levels[start], "real/home"))
				case "home-trailing-slash":
					home += "/"
				case "home-doubled-separator":
					home = filepath.Join(root, "real") + "//home"
				case "cwd-trailing-slash":
					cwd += "/"
				case "cwd-doubled-separator":
					cwd = filepath.Dir(cwd) + "//" + filepath.Base(cwd)
				case "cwd-down-and-up":
					if start == 3 {
						continue
					}
					cwd = filepath.Join(root, levels[start+1]) + "/.."
				case "cwd-through-self-link":
					// L1/self -> . : the working directory is spelled through a link to the link's own directory
					if start != 3 {
						continue
					}
					os.Symlink(".", filepath.Join(root, "real/home/L1/self"))
					os.Lchown(filepath.Join(root, "real/home/L1/self"), 65534, 65534)
					cwd = filepath.Join(root, "real/home/L1/self/L2")
				case "unreadable-1", "unreadable-2", "unreadable-3":
					// a directory on the way that may be entered but not listed
					unreadable = int(style[len(style)-1] - '0')
					if unreadable > start {
						continue
					}
					os.Chmod(filepath.Join(root, levels[unreadable]), 0o311)
				}
				o := bin.Run(cwd, home, nil, "--show")
				calls++
				if unreadable > 0 {
					os.Chmod(filepath.Join(root, levels[unreadable]), 0o755)
				}
				os.Remove(filepath.Join(root, "real/home/L1/self"))
				want := -1
				for i := start; i >= 1; i-- {
					if mask&(1<<i) != 0 {
						want = i
						break
					}
				}
				key := fmt.Sprintf("binary mask=%d start=%d style=%s", mask, start, style)
				desc := fmt.Sprintf("spokfiles at levels %04b (bit 0 = the directory above $HOME), cwd = level %d, $HOME %s", mask, start, map[string]string{"real": "a plain path", "link": "a symbolic link, cwd below it", "home-trailing-slash": "with a trailing slash", "home-doubled-separator": "with a doubled separator",
					"cwd-trailing-slash": "plain, $PWD with a trailing slash", "cwd-doubled-separator": "plain, $PWD with a doubled separator", "cwd-down-and-up": "plain, $PWD = <sub-directory>/..", "cwd-through-self-link": "plain, $PWD goes through a symbolic link to its own directory",
					"unreadable-1": "plain, level 1 has mode 0311", "unreadable-2": "plain, level 2 has mode 0311", "unreadable-3": "plain, level 3 has mode 0311"}[style])
				c := map[string]any{"mask": mask, "start": start, "style": style}
				if o.Died() {
					run.Report(ev.Violation{Key: key, Class: "does-not-terminate", What: desc + fmt.Sprintf(": spok died or hung (signal=%s timeout=%v)", o.Signal, o.TimedOut), Case: c})
					continue
				}
				if want < 0 {
					if o.Exit == 0 {
						run.Report(ev.Violation{Key: key, Class: "found-outside-range", What: desc + ": no spokfile between cwd and $HOME, but spok listed " + firstLine(o.Stdout), Case: c})
					}
					continue
				}
				if o.Exit != 0 && unreadable >= want && unreadable > 0 {
					continue // a directory that cannot be listed lies between cwd and the answer: an error is an answer
				}
				if o.Exit != 0 {
					run.Report(ev.Violation{Key: key, Class: "enclosing-spokfile-missed", What: desc + fmt.Sprintf(": the spokfile at level %d should be found, spok said: %s", want, firstLine(strings.TrimSpace(o.Stderr))), Case: c})
					continue
				}
				if !strings.Contains(o.Stdout, "level"+string(rune('a'+want))) {
					run.Report(ev.Violation{Key: key, Class: "wrong-spokfile", What: desc + fmt.Sprintf(": expected the tasks of the spokfile at level %d, got %s", want, clip(o.Stdout)), Case: c})
				}
			}
		}
	}
	os.RemoveAll(root)
	return calls
}
