//go:build vsched

package main

import (
	"encoding/json"
	"fmt"
	"os"
	"path/filepath"
	"reflect"
	"runtime"
	"sort"
	"strconv"
	"strings"
	"sync"
	"syscall"
	"time"

	"github.com/FollowTheProcess/spok/hash"
	"github.com/FollowTheProcess/spok/parser"
	"github.com/FollowTheProcess/spok/zzverif/vsched"

	"verifharness/internal/ev"
	"verifharness/internal/lang"
	"verifharness/internal/pool"
)

func init() {
	checks["C04"] = func(tier string) int { return schedCheck("C04", tier) }
	checks["C18"] = func(tier string) int { return schedCheck("C18", tier) }
	workers["sched"] = schedWorker
	replays["schedmc"] = schedReplay
}

// ---------------------------------------------------------------------------
// generic deviation-bounded explorer over vsched executions

type exploreStats struct {
	Nondet      string
	Execs       int64
	Points      int64
	Pruned      int64
	MaxPoints   int
	StatesSeen  int64
	Capped      bool
	DistinctOut map[string]int64
}

// explore runs body under every choice sequence allowed by the mode:
//
//	pruned: every interleaving and every environment answer, with state-key pruning
//	        (complete when thread-local state is a function of the thread's
//	        operation/return history, i.e. for code without unsynchronised sharing);
//	delay:  no pruning; every choice sequence with <= db non-default scheduling
//	        choices (delay bounding: the default is "keep running, else lowest id")
//	        and <= eb environment deviations. Sound within the bound even when
//	        threads share unsynchronised memory.
func explore(opt vsched.Options, body func(), mode string, db, eb int, capExecs int64, onExec func(r *vsched.Result, choices []int)) exploreStats {
	st := exploreStats{DistinctOut: map[string]int64{}}
	var visited map[uint64]bool
	if mode == "pruned" {
		visited = map[uint64]bool{}
	}
	var rec func(prefix []int, dc, ec int)
	rec = func(prefix []int, dc, ec int) {
		if st.Capped {
			return
		}
		if capExecs > 0 && st.Execs >= capExecs {
			st.Capped = true
			return
		}
		o := opt
		o.Prefix = prefix
		o.Visited = visited
		r := vsched.Run(o, body)
		st.Execs++
		st.Points += int64(len(r.Points))
		if len(r.Points) > st.MaxPoints {
			st.MaxPoints = len(r.Points)
		}
		if r.Diverged != "" {
			// the same choice prefix led somewhere else: the code under test keeps state between
			// executions (e.g. a package-level cache), so executions are not independent. That is
			// not a verdict about the property; give up on this configuration and say so.
			st.Nondet = r.Diverged
			st.Capped = true
			return
		}
		taken := make([]int, len(r.Points))
		for i, p := range r.Points {
			taken[i] = p.Taken
		}
		if r.Pruned {
			st.Pruned++
		} else {
			onExec(r, taken)
		}
		for i := len(prefix); i < len(r.Points); i++ {
			pt := r.Points[i]
			for alt := 1; alt < pt.Width; alt++ {
				ndc, nec := dc, ec
				if pt.Env {
					nec++
				} else {
					ndc++
				}
				if mode != "pruned" && (ndc > db || nec > eb) {
					continue
				}
				rec(append(append([]int{}, taken[:i]...), alt), ndc, nec)
			}
		}
	}
	rec(nil, 0, 0)
	st.StatesSeen = int64(len(visited))
	return st
}

// ---------------------------------------------------------------------------
// configurations

// An entry of a list handed to Hash.
type hentry struct {
	Kind    string `json:"kind"` // file | dir | missing | dangling | unreadable
	Path    string `json:"path"` // relative to the sandbox
	Content string `json:"content,omitempty"`
}

type schedCfg struct {
	Prop    string   `json:"prop"`
	Entries []hentry `json:"entries"` // distinct paths available
	List    []int    `json:"list"`    // indexes into Entries, in list order (duplicates allowed)
	NumCPU  int      `json:"numcpu"`
	Mode    string   `json:"mode"` // pruned | delay
	DB      int      `json:"db"`   // delay bound (delay mode)
	EB      int      `json:"eb"`   // environment-deviation bound (delay mode)
	Faults  bool     `json:"faults"`
	Choices []int    `json:"choices,omitempty"` // replay only
}

func (c schedCfg) describe() string {
	var l []string
	for _, i := range c.List {
		e := c.Entries[i]
		l = append(l, e.Kind+":"+e.Path)
	}
	return fmt.Sprintf("list=[%s] NumCPU=%d", strings.Join(l, " "), c.NumCPU)
}

// multiset key of the regular files in the list: what the digest may depend on
func (c schedCfg) multiset() string {
	var items []string
	for _, i := range c.List {
		e := c.Entries[i]
		if e.Kind == "file" {
			items = append(items, e.Path+"="+e.Content)
		}
		if e.Kind == "bigfile" {
			items = append(items, e.Path+"=<16 MiB + 1 of zeros>")
		}
	}
	sort.Strings(items)
	return strings.Join(items, ";")
}

func (c schedCfg) hasBad() bool {
	for _, i := range c.List {
		k := c.Entries[i].Kind
		if k == "missing" || k == "dangling" || k == "unreadable" {
			return true
		}
	}
	return false
}

func materialiseEntries(root string, es []hentry) {
	for _, e := range es {
		full := filepath.Join(root, e.Path)
		os.MkdirAll(filepath.Dir(full), 0o755)
		switch e.Kind {
		case "file":
			os.WriteFile(full, []byte(e.Content), 0o644)
		case "bigfile":
			// 16 MiB + 1 of zeros (sparse): past any size at which an implementation might switch strategy
			if f, err := os.Create(full); err == nil {
				f.Truncate(16<<20 + 1)
				f.Close()
			}
		case "dir":
			os.MkdirAll(full, 0o755)
		case "dangling":
			os.Symlink(filepath.Join(root, "nowhere", "x"), full)
		case "unreadable":
			os.WriteFile(full, []byte("secret"), 0o000)
			os.Chmod(full, 0o000)
		}
	}
}

func perms(n int) [][]int {
	if n == 0 {
		return [][]int{{}}
	}
	var out [][]int
	for _, p := range perms(n - 1) {
		for i := 0; i <= len(p); i++ {
			q := append(append(append([]int{}, p[:i]...), n-1), p[i:]...)
			out = append(out, q)
		}
	}
	return out
}

// lists of length <= n over k entries, with repetition
func listsOver(k, n int) [][]int {
	out := [][]int{{}}
	prev := [][]int{{}}
	for l := 1; l <= n; l++ {
		var cur [][]int
		for _, p := range prev {
			for e := 0; e < k; e++ {
				cur = append(cur, append(append([]int{}, p...), e))
			}
		}
		out = append(out, cur...)
		prev = cur
	}
	return out
}

func c04Entries() []hentry {
	return []hentry{{Kind: "file", Path: "a", Content: "bc"}, {Kind: "file", Path: "ab", Content: "c"}, {Kind: "file", Path: "d/a", Content: ""}, {Kind: "dir", Path: "dd"}}
}

func c18Entries() []hentry {
	return []hentry{{Kind: "file", Path: "a", Content: "x"}, {Kind: "file", Path: "b", Content: "y"}, {Kind: "dir", Path: "dd"},
		{Kind: "missing", Path: "gone"}, {Kind: "dangling", Path: "dang"}, {Kind: "unreadable", Path: "noperm"}}
}

func schedConfigs(prop, tier string) []schedCfg {
	var out []schedCfg
	thorough := tier == "thorough"
	add := func(es []hentry, l []int, cpu int, faults bool, db, eb int) {
		out = append(out, schedCfg{Prop: prop, Entries: es, List: l, NumCPU: cpu, Mode: "pruned", Faults: faults})
		if db >= 0 {
			out = append(out, schedCfg{Prop: prop, Entries: es, List: l, NumCPU: cpu, Mode: "delay", DB: db, EB: eb, Faults: faults})
		}
	}
	if prop == "C04" {
		es := c04Entries()
		maxLen := 3
		if thorough {
			maxLen = 4
		}
		for _, l := range listsOver(len(es), maxLen) {
			for cpu := 1; cpu <= 3; cpu++ {
				if len(l) == 0 && cpu > 1 {
					continue
				}
				db := 2
				if thorough && len(l) <= 3 {
					db = 3
				}
				if len(l) == 4 {
					db = 1
					if cpu == 1 {
						continue
					}
				}
				add(es, l, cpu, false, db, 0)
			}
		}
		return out
	}
	// C18: every kind of entry in every position
	es := c18Entries()
	for _, l := range listsOver(len(es), 3) {
		for cpu := 1; cpu <= 3; cpu++ {
			if len(l) == 0 && cpu > 1 {
				continue
			}
			db := 2
			if len(l) == 3 {
				db = 1
				if thorough && cpu <= 2 {
					db = 2
				}
			}
			add(es, l, cpu, false, db, 0)
		}
	}
	// fault injection (a file that vanishes / cannot be read although it exists)
	fl := 2
	if thorough {
		fl = 3
	}
	for _, l := range listsOver(3, fl) { // regular files a, b and the directory
		if len(l) == 0 {
			continue
		}
		for cpu := 1; cpu <= 3; cpu++ {
			eb := 1
			if thorough {
				eb = 2
			}
			add(es, l, cpu, true, 1, eb)
		}
	}
	// spellings the kernel refuses although their lexical clean-up names an existing file
	ses := []hentry{{Kind: "file", Path: "a", Content: "x"}, {Kind: "missing", Path: "nodir/../a"}, {Kind: "missing", Path: "a/"}, {Kind: "missing", Path: "a/."}}
	for _, l := range listsOver(len(ses), 2) {
		bad := false
		for _, i := range l {
			if i > 0 {
				bad = true
			}
		}
		if bad {
			add(ses, l, 1, false, -1, 0)
			add(ses, l, 2, false, -1, 0)
		}
	}
	// a file large enough for a different reading strategy (the environment may shrink it meanwhile)
	bes := []hentry{{Kind: "bigfile", Path: "big"}, {Kind: "file", Path: "a", Content: "x"}}
	add(bes, []int{0}, 1, true, 1, 1)
	add(bes, []int{0}, 2, true, 1, 1)
	add(bes, []int{1, 0}, 1, true, -1, 0)
	if thorough {
		// sizes around the worker-count boundary
		for n := 4; n <= 5; n++ {
			l := make([]int, n)
			for i := range l {
				l[i] = i % 2
			}
			for cpu := 1; cpu <= 4; cpu++ {
				add(es, l, cpu, false, -1, 0)
			}
		}
	}
	return out
}

// ---------------------------------------------------------------------------
// one configuration

type schedResult struct {
	Execs     int64            `json:"execs"`
	Points    int64            `json:"points"`
	Pruned    int64            `json:"pruned"`
	States    int64            `json:"states"`
	Capped    bool             `json:"capped"`
	Digests   map[string]int64 `json:"digests"` // outcome -> executions
	Viol      []ev.Violation   `json:"viol"`
	Multiset  string           `json:"multiset"`
	MaxPoints int              `json:"max_points"`
	Nondet    string           `json:"nondet,omitempty"`
}

func runSchedCfg(root string, c schedCfg, capExecs int64) schedResult {
	res := schedResult{Digests: map[string]int64{}, Multiset: c.multiset()}
	files := make([]string, len(c.List))
	for i, k := range c.List {
		files[i] = root + string(filepath.Separator) + c.Entries[k].Path // not Join: the spelling is part of the entry
	}
	var digest string
	var herr error
	body := func() {
		digest, herr = "", nil
		digest, herr = hash.New().Hash(files)
	}
	report := func(cls, what string, choices []int) {
		if len(res.Viol) >= 10 {
			return
		}
		cc := c
		cc.Choices = choices
		var m map[string]any
		json.Unmarshal(pool.MustJSON(cc), &m)
		res.Viol = append(res.Viol, ev.Violation{Engine: "schedmc", Key: fmt.Sprintf("%s mode=%s db=%d eb=%d faults=%v choices=%v", c.describe(), c.Mode, c.DB, c.EB, c.Faults, choices), Class: cls,
			What: fmt.Sprintf("%s schedule %v: %s", c.describe(), choices, what), Case: m})
	}
	opt := vsched.Options{NumCPU: c.NumCPU, Faults: c.Faults, Budget: 20000}
	st := explore(opt, body, c.Mode, c.DB, c.EB, capExecs, func(r *vsched.Result, choices []int) {
		injected := false
		for _, p := range r.Points {
			if p.Env && p.Taken > 0 {
				injected = true
			}
		}
		out := ""
		switch {
		case len(r.Panics) > 0:
			out = "PANIC"
			report("panic-in-goroutine", "a goroutine panicked (this kills the real process): "+firstLines(r.Panics[0], 3), choices)
		case r.Deadlock:
			out = "DEADLOCK"
			report("deadlock", "Hash never returns: "+strings.Join(r.BlockedAt, "; "), choices)
		case r.Livelock:
			out = "LIVELOCK"
			report("livelock", "operation budget exceeded (a thread spins)", choices)
		default:
			if r.Leaked > 0 {
				report("goroutine-leak", fmt.Sprintf("%d goroutine(s) left blocked after Hash returned: %s", r.Leaked, strings.Join(r.LeakedAt, "; ")), choices)
			}
			switch {
			case herr != nil && digest != "":
				out = "BOTH"
				report("digest-and-error", fmt.Sprintf("returned digest %s together with error %v", digest, herr), choices)
			case herr != nil:
				out = "error"
			default:
				out = "digest:" + digest
				if c.hasBad() || injected {
					report("digest-despite-unreadable-entry", fmt.Sprintf("an entry could not be opened/read but Hash returned digest %.12s instead of an error", digest), choices)
				}
			}
			if c.Prop == "C04" && herr != nil {
				report("error-on-readable-files", fmt.Sprintf("all entries are readable but Hash returned error %v", herr), choices)
			}
		}
		res.Digests[out]++
	})
	res.Execs, res.Points, res.Pruned, res.States, res.Capped, res.MaxPoints, res.Nondet = st.Execs, st.Points, st.Pruned, st.StatesSeen, st.Capped, st.MaxPoints, st.Nondet
	// schedule independence within this configuration
	if c.Prop == "C04" {
		var ds []string
		for d := range res.Digests {
			if strings.HasPrefix(d, "digest:") {
				ds = append(ds, d)
			}
		}
		if len(ds) > 1 {
			report("digest-depends-on-schedule", fmt.Sprintf("%d different digests over the interleavings of one call: %v", len(ds), ds), nil)
		}
	}
	return res
}

// worker: mc worker sched <prop> <tier> <lo> <hi>
func schedWorker(args []string) {
	prop, tier := args[0], args[1]
	lo, _ := strconv.Atoi(args[2])
	hi, _ := strconv.Atoi(args[3])
	cfgs := schedConfigs(prop, tier)
	root := os.Getenv("VERIF_SCHED_ROOT") // materialised once by the parent, read-only for workers
	prog := pool.OpenProgress()
	var out []schedResult
	var capExecs int64 = 400000
	if tier == "thorough" {
		capExecs = 6000000
	}
	for i := lo; i < hi && i < len(cfgs); i++ {
		prog.Announce(int64(i), 0)
		out = append(out, runSchedCfg(root, cfgs[i], capExecs))
	}
	os.Stdout.Write(pool.MustJSON(out))
}

// ---------------------------------------------------------------------------
// C04 (b): change sensitivity, exhaustive over a universe, free-running real code

// freeHash calls the real Hash free-running (no controlled scheduler) without letting a panic
// in one of its goroutines, or a call that never returns, take the check down: crash != ""
// then says what happened.
var freeHashMu sync.Mutex

func freeHash(l []string) (d string, err error, crash string) {
	freeHashMu.Lock()
	defer freeHashMu.Unlock()
	var mu sync.Mutex
	var panics []string
	vsched.FreePanic = func(v any) {
		mu.Lock()
		panics = append(panics, fmt.Sprint(v))
		mu.Unlock()
	}
	defer func() { vsched.FreePanic = nil }()
	type res struct {
		d   string
		err error
		p   string
	}
	done := make(chan res, 1)
	go func() {
		defer func() {
			if r := recover(); r != nil {
				done <- res{p: fmt.Sprint(r)}
			}
		}()
		given := append([]string{}, l...)
		d, err := hash.New().Hash(l)
		for i := range given {
			if i >= len(l) || l[i] != given[i] {
				// the caller's list is the caller's: a write to it races with every other reader of it
				done <- res{p: fmt.Sprintf("Hash wrote to the list it was given (entry %d of %d was %q, is %q)", i, len(given), given[i], l[i])}
				return
			}
		}
		done <- res{d: d, err: err}
	}()
	select {
	case r := <-done:
		mu.Lock()
		defer mu.Unlock()
		if r.p != "" {
			return "", nil, "panic: " + r.p
		}
		if len(panics) > 0 {
			return r.d, r.err, "panic in a goroutine of the call: " + panics[0]
		}
		return r.d, r.err, ""
	case <-time.After(60 * time.Second):
		mu.Lock()
		defer mu.Unlock()
		if len(panics) > 0 {
			return "", nil, "panic in a goroutine of the call (" + panics[0] + "), after which the call never returned"
		}
		return "", nil, "the call did not return within 60 s"
	}
}

// freeHashReport turns a crashed free-running call into a violation of the running property.
func freeHashReport(run *ev.Run, what string, crash string) {
	run.Report(ev.Violation{Key: "free-running crash " + what, Class: "hash-call-crashed", What: fmt.Sprintf("%s: free-running Hash call: %s (no digest on this schedule, a digest on others)", what, crash), Case: map[string]any{"free_running": what}})
}

type sensFile struct {
	Path     string
	Contents []string
	Link     bool // the path is a symbolic link to a file, kept in a directory of its own, with that content
}

func c04Sensitivity(run *ev.Run, tier string) (collections int, pairs int64) {
	big := strings.Repeat("z", 70*1024)
	uni := []sensFile{
		{"a", []string{"bc", "", "ab"}, false},
		{"ab", []string{"c", "bc"}, false},
		{"b", []string{"bc", "c"}, false},
		{"d/a", []string{"bc", "x"}, false},
		{"e/a", []string{"bc"}, false},
		{"big", []string{big + "1", big + "2"}, false},
		{"lnk", []string{"bc", "x"}, true},
		// two names that are canonically equivalent in Unicode (precomposed / decomposed) and distinct on disk
		{"caf\u00e9", []string{"bc", "x"}, false},
		{"cafe\u0301", []string{"bc", "x"}, false},
		// a file directly inside a directory that is called like spok's cache directory
		{"sub/.spok/f", []string{"bc", "x"}, false},
	}
	root := filepath.Join(pool.Scratch, "sens")
	type coll struct {
		desc   string
		digest string
	}
	var all []coll
	shapes := map[string][]coll{}
	maxSize := 3
	if tier == "thorough" {
		maxSize = 4
	}
	var rec func(start int, chosen []int, contents []int)
	rec = func(start int, chosen []int, contents []int) {
		// materialise and hash this collection (every permutation of the list must agree)
		os.RemoveAll(root)
		var files, desc []string
		for k, fi := range chosen {
			f := uni[fi]
			full := filepath.Join(root, f.Path)
			os.MkdirAll(filepath.Dir(full), 0o755)
			if f.Link {
				os.MkdirAll(filepath.Join(root, "_targets"), 0o755)
				os.WriteFile(filepath.Join(root, "_targets", f.Path), []byte(f.Contents[contents[k]]), 0o644)
				os.Symlink(filepath.Join("_targets", f.Path), full)
			} else {
				os.WriteFile(full, []byte(f.Contents[contents[k]]), 0o644)
			}
			files = append(files, full)
			c := f.Contents[contents[k]]
			if len(c) > 20 {
				c = fmt.Sprintf("<%d bytes ...%s>", len(c), c[len(c)-1:])
			}
			desc = append(desc, f.Path+"="+strconv.Quote(c))
		}
		os.MkdirAll(root, 0o755)
		var first string
		for pi, p := range perms(len(files)) {
			l := make([]string, len(files))
			for i, k := range p {
				l[i] = files[k]
			}
			// a directory entry in the list must not matter
			if pi == 0 {
				l = append(l, root)
			}
			d, err, crash := freeHash(l)
			if crash != "" {
				freeHashReport(run, "collection {"+strings.Join(desc, ", ")+"}", crash)
				return
			}
			if err != nil {
				run.Report(ev.Violation{Key: "sens " + strings.Join(desc, ","), Class: "error-on-readable-files", What: fmt.Sprintf("collection {%s}: Hash returned error %v", strings.Join(desc, ", "), err), Case: map[string]any{"collection": desc}})
				return
			}
			if pi == 0 {
				first = d
			} else if d != first {
				run.Report(ev.Violation{Key: "sens-order " + strings.Join(desc, ","), Class: "digest-depends-on-order", What: fmt.Sprintf("collection {%s}: digest differs between two orders of the list (or with a directory entry added)", strings.Join(desc, ", ")), Case: map[string]any{"collection": desc}})
			}
		}
		all = append(all, coll{strings.Join(desc, ", "), first})
		// the same collection listed with duplicates: per duplicate pattern the digest must still
		// tell collections apart (a content change must never cancel out)
		if len(files) > 0 {
			dbl := append(append([]string{}, files...), files...)
			if d, err, crash := freeHash(dbl); err == nil && crash == "" {
				shapes["all-twice"] = append(shapes["all-twice"], coll{strings.Join(desc, ", "), d})
			}
			one := append(append([]string{}, files...), files[0])
			if d, err, crash := freeHash(one); err == nil && crash == "" {
				shapes["first-twice"] = append(shapes["first-twice"], coll{strings.Join(desc, ", "), d})
			}
		}
		if len(chosen) == maxSize {
			return
		}
		for fi := start; fi < len(uni); fi++ {
			for ci := range uni[fi].Contents {
				rec(fi+1, append(append([]int{}, chosen...), fi), append(append([]int{}, contents...), ci))
			}
		}
	}
	rec(0, nil, nil)
	os.RemoveAll(root)
	byDigest := map[string]string{}
	for _, c := range all {
		if other, ok := byDigest[c.digest]; ok {
			run.Report(ev.Violation{Key: "sens-collision {" + other + "} vs {" + c.desc + "}", Class: "different-collections-same-digest",
				What: fmt.Sprintf("collections {%s} and {%s} have the same digest %.12s", other, c.desc, c.digest), Case: map[string]any{"a": other, "b": c.desc}})
		} else {
			byDigest[c.digest] = c.desc
		}
	}
	for shape, list := range shapes {
		seen := map[string]string{}
		for _, c := range list {
			if other, ok := seen[c.digest]; ok {
				run.Report(ev.Violation{Key: "sens-dup-collision " + shape + " {" + other + "} vs {" + c.desc + "}", Class: "different-collections-same-digest-with-duplicates",
					What: fmt.Sprintf("listed %s, collections {%s} and {%s} have the same digest %.12s", shape, other, c.desc, c.digest), Case: map[string]any{"a": other, "b": c.desc, "shape": shape}})
			} else {
				seen[c.digest] = c.desc
			}
		}
	}
	n := int64(len(all))
	lp := c04LongLists(run)
	lp += c04Environment(run)
	return len(all), n*(n-1)/2 + lp
}

// c04Environment: the same (path, content) pairs under different circumstances must give the same
// digest, different contents at the same path a different one - for the corners of the environment:
// a link re-pointed to another file with the same bytes, a file that reports size 0 but has
// content (procfs), the number of usable CPUs, and two files on different file systems that
// share an inode number.
func c04Environment(run *ev.Run) int64 {
	var n int64
	root := filepath.Join(pool.Scratch, "envsens")
	os.RemoveAll(root)
	os.MkdirAll(filepath.Join(root, "t"), 0o755)
	defer os.RemoveAll(root)
	hashOf := func(what string, l []string) (string, bool) {
		d, err, crash := freeHash(l)
		n++
		if crash != "" {
			freeHashReport(run, what, crash)
			return "", false
		}
		if err != nil {
			run.Report(ev.Violation{Key: "env " + what, Class: "error-on-readable-files", What: fmt.Sprintf("%s: Hash returned %v", what, err), Case: map[string]any{"environment": what}})
			return "", false
		}
		return d, true
	}
	// 1. a link re-pointed between two files with identical bytes
	os.WriteFile(filepath.Join(root, "t", "one"), []byte("same bytes"), 0o644)
	os.WriteFile(filepath.Join(root, "t", "two"), []byte("same bytes"), 0o644)
	lnk := filepath.Join(root, "cfg")
	os.Symlink(filepath.Join("t", "one"), lnk)
	d1, ok1 := hashOf("link to t/one", []string{lnk})
	os.Remove(lnk)
	os.Symlink(filepath.Join("t", "two"), lnk)
	d2, ok2 := hashOf("link to t/two", []string{lnk})
	if ok1 && ok2 && d1 != d2 {
		run.Report(ev.Violation{Key: "env relinked", Class: "same-files-different-digest", What: "a dependency that is a symbolic link was re-pointed to another file with identical bytes: same path, same content, different digest", Case: map[string]any{"environment": "relinked"}})
	}
	// ... and the directory the list is reached through is a link that is re-pointed
	for _, r := range []string{"rel1", "rel2"} {
		os.MkdirAll(filepath.Join(root, r), 0o755)
		os.WriteFile(filepath.Join(root, r, "f"), []byte("same bytes"), 0o644)
	}
	cur := filepath.Join(root, "current")
	os.Symlink("rel1", cur)
	d1, ok1 = hashOf("current -> rel1", []string{filepath.Join(cur, "f")})
	os.Remove(cur)
	os.Symlink("rel2", cur)
	d2, ok2 = hashOf("current -> rel2", []string{filepath.Join(cur, "f")})
	if ok1 && ok2 && d1 != d2 {
		run.Report(ev.Violation{Key: "env relinked dir", Class: "same-files-different-digest", What: "the directory a dependency is reached through is a symbolic link that was re-pointed to a directory with identical files: same path, same content, different digest", Case: map[string]any{"environment": "relinked-dir"}})
	}
	// ... two links that swap their targets: the (path, content) pairs change
	os.WriteFile(filepath.Join(root, "t", "x"), []byte("content x"), 0o644)
	os.WriteFile(filepath.Join(root, "t", "y"), []byte("content y"), 0o644)
	l1, l2 := filepath.Join(root, "l1"), filepath.Join(root, "l2")
	os.Symlink(filepath.Join("t", "x"), l1)
	os.Symlink(filepath.Join("t", "y"), l2)
	d1, ok1 = hashOf("links l1->x l2->y", []string{l1, l2})
	os.Remove(l1)
	os.Remove(l2)
	os.Symlink(filepath.Join("t", "y"), l1)
	os.Symlink(filepath.Join("t", "x"), l2)
	d2, ok2 = hashOf("links l1->y l2->x", []string{l1, l2})
	if ok1 && ok2 && d1 == d2 {
		run.Report(ev.Violation{Key: "env swapped links", Class: "content-change-keeps-digest", What: "two listed symbolic links swapped their targets (each path now has the other's content): the digest did not change", Case: map[string]any{"environment": "swapped-links"}})
	}
	// ... files of 16, 32 and 64 MiB (+1): a touch must not change the digest, a changed byte with the old size and time must
	for _, mib := range []int64{16, 32, 64} {
		big := filepath.Join(root, fmt.Sprintf("big%d", mib))
		if f, err := os.Create(big); err == nil {
			f.Truncate(mib<<20 + 1)
			f.Close()
		}
		st, err := os.Stat(big)
		if err != nil {
			continue
		}
		b1, okb1 := hashOf(fmt.Sprintf("%d MiB file", mib), []string{big})
		later := st.ModTime().Add(90 * time.Minute)
		os.Chtimes(big, later, later)
		b2, okb2 := hashOf(fmt.Sprintf("%d MiB file, touched", mib), []string{big})
		if okb1 && okb2 && b1 != b2 {
			run.Report(ev.Violation{Key: fmt.Sprintf("env big touch %d", mib), Class: "same-files-different-digest", What: fmt.Sprintf("a %d MiB file was touched (same path, same bytes, new modification time): the digest changed", mib), Case: map[string]any{"environment": "big-file-touched", "mib": mib}})
		}
		if f, err := os.OpenFile(big, os.O_WRONLY, 0); err == nil {
			f.WriteAt([]byte{1}, mib<<19)
			f.Close()
		}
		os.Chtimes(big, later, later)
		b3, okb3 := hashOf(fmt.Sprintf("%d MiB file, one byte changed, same size and time", mib), []string{big})
		if okb2 && okb3 && b2 == b3 {
			run.Report(ev.Violation{Key: fmt.Sprintf("env big change %d", mib), Class: "content-change-keeps-digest", What: fmt.Sprintf("one byte in the middle of a %d MiB file changed while its size and modification time stayed: the digest did not change", mib), Case: map[string]any{"environment": "big-file-changed", "mib": mib}})
		}
		os.Remove(big)
	}
	// 2. a file whose size is reported as 0 although it has content, and whose content changes
	if b1, err := os.ReadFile("/proc/uptime"); err == nil && len(b1) > 0 {
		if st, err := os.Stat("/proc/uptime"); err == nil && st.Size() == 0 {
			d1, ok1 := hashOf("/proc/uptime", []string{"/proc/uptime"})
			var d2 string
			var ok2 bool
			for try := 0; try < 50 && ok1; try++ {
				time.Sleep(30 * time.Millisecond)
				if b2, _ := os.ReadFile("/proc/uptime"); string(b2) != string(b1) {
					d2, ok2 = hashOf("/proc/uptime later", []string{"/proc/uptime"})
					break
				}
			}
			if ok1 && ok2 && d1 == d2 {
				run.Report(ev.Violation{Key: "env size0", Class: "content-change-keeps-digest", What: "/proc/uptime (size reported as 0, content present and changing): the digest is the same before and after its content changed", Case: map[string]any{"environment": "size-0-with-content"}})
			}
		}
	}
	// 3. the number of usable CPUs
	var files []string
	for i := 0; i < 7; i++ {
		f := filepath.Join(root, fmt.Sprintf("c%d", i))
		os.WriteFile(f, []byte(fmt.Sprintf("content %d", i)), 0o644)
		files = append(files, f)
	}
	old := runtime.GOMAXPROCS(0)
	ref := ""
	for _, procs := range []int{old, 1, 2, 3, 4} {
		runtime.GOMAXPROCS(procs)
		for _, k := range []int{2, 3, 5, 7} {
			for _, rev := range []bool{false, true} {
				l := append([]string{}, files[:k]...)
				if rev {
					for i, j := 0, len(l)-1; i < j; i, j = i+1, j-1 {
						l[i], l[j] = l[j], l[i]
					}
				}
				d, ok := hashOf(fmt.Sprintf("GOMAXPROCS=%d, %d files", procs, k), l)
				key := fmt.Sprintf("%d", k)
				if !ok {
					continue
				}
				if procs == old && !rev {
					ref += key + "=" + d + ";"
				} else if !strings.Contains(ref, key+"="+d+";") {
					run.Report(ev.Violation{Key: fmt.Sprintf("env procs %d %d %v", procs, k, rev), Class: "digest-depends-on-order-or-cpus", What: fmt.Sprintf("%d files hashed with GOMAXPROCS=%d (list reversed: %v) give another digest than with GOMAXPROCS=%d", k, procs, rev, old), Case: map[string]any{"environment": "gomaxprocs"}})
				}
			}
		}
	}
	runtime.GOMAXPROCS(old)
	// 4. two regular files on different file systems with the same inode number and different content
	if a, b, ok := inodeTwins(); ok {
		var fill []string
		for i := 0; i < 400; i++ {
			f := filepath.Join(root, fmt.Sprintf("fill%03d", i))
			os.WriteFile(f, []byte(fmt.Sprintf("filler %d", i)), 0o644)
			fill = append(fill, f)
		}
		ab := append(append([]string{a}, fill...), b)
		ba := append(append([]string{b}, fill...), a)
		var ds []string
		for rep := 0; rep < 3; rep++ {
			for _, l := range [][]string{ab, ba} {
				if d, ok := hashOf("inode twins "+a+" / "+b, l); ok {
					ds = append(ds, d)
				}
			}
		}
		for _, d := range ds {
			if d != ds[0] {
				run.Report(ev.Violation{Key: "env inode twins", Class: "digest-depends-on-order", What: fmt.Sprintf("%s and %s are different files on different file systems with the same inode number: the digest of a list holding both depends on which comes first", a, b), Case: map[string]any{"environment": "inode-twins", "a": a, "b": b}})
				break
			}
		}
		run.Set("inode_twins_checked", a+" / "+b)
	} else {
		run.Set("inode_twins_checked", "none found on this machine")
	}
	return n
}

// inodeTwins looks for two readable regular files with equal inode numbers, different device
// numbers and different content (sysfs against the root file system).
func inodeTwins() (string, string, bool) {
	type ent struct {
		path string
		dev  uint64
	}
	byIno := map[uint64]ent{}
	count := 0
	// inode numbers only (reading arbitrary sysfs files is left to the few candidates below)
	filepath.WalkDir("/sys", func(p string, d os.DirEntry, err error) error {
		if err != nil {
			return nil
		}
		if count > 300000 {
			return filepath.SkipAll
		}
		if d.Type().IsRegular() {
			if info, err := d.Info(); err == nil && info.Mode().Perm()&0o444 == 0o444 {
				if st, ok := info.Sys().(*syscall.Stat_t); ok {
					byIno[st.Ino] = ent{p, uint64(st.Dev)}
					count++
				}
			}
		}
		return nil
	})
	readQuick := func(p string) []byte {
		ch := make(chan []byte, 1)
		go func() {
			b, _ := os.ReadFile(p)
			ch <- b
		}()
		select {
		case b := <-ch:
			return b
		case <-time.After(2 * time.Second):
			return nil
		}
	}
	var a, b string
	for _, base := range []string{"/usr/share", "/usr/lib", "/etc"} {
		seen := 0
		filepath.WalkDir(base, func(p string, d os.DirEntry, err error) error {
			if err != nil {
				return nil
			}
			if a != "" || seen > 300000 {
				return filepath.SkipAll
			}
			seen++
			if d.Type().IsRegular() {
				if info, err := d.Info(); err == nil {
					if st, ok := info.Sys().(*syscall.Stat_t); ok {
						if e, hit := byIno[st.Ino]; hit && e.dev != uint64(st.Dev) && info.Mode().Perm()&0o444 == 0o444 && info.Size() > 0 && info.Size() < 1<<20 {
							x := readQuick(e.path)
							y, _ := os.ReadFile(p)
							if len(x) > 0 && len(x) < 1<<16 && len(y) > 0 && string(x) != string(y) && string(readQuick(e.path)) == string(x) {
								a, b = e.path, p
							}
						}
					}
				}
			}
			return nil
		})
		if a != "" {
			return a, b, true
		}
	}
	return "", "", false
}

// c04LongLists: list sizes around and beyond the worker-count boundary. Under the
// controlled NumCPU (1..3, default schedule) for sizes 0..13, and free-running at the
// real NumCPU for sizes 0..4*NumCPU+2 and a few larger ones: the digest must not
// depend on the order, must change when ANY single file changes, and must differ
// between sizes.
func c04LongLists(run *ev.Run) int64 {
	root := filepath.Join(pool.Scratch, "long")
	os.MkdirAll(root, 0o755)
	defer os.RemoveAll(root)
	maxN := 4*runtime.NumCPU() + 2
	sizes := map[int]bool{}
	for n := 0; n <= maxN; n++ {
		sizes[n] = true
	}
	for _, n := range []int{8*runtime.NumCPU() - 1, 8 * runtime.NumCPU(), 8*runtime.NumCPU() + 1, 8*runtime.NumCPU() + 3, 16*runtime.NumCPU() + 5,
		// around sizes at which an implementation might start to batch, fold or spill
		1023, 1024, 1025, 4095, 4096, 4097, 8200} {
		sizes[n] = true
	}
	top := 0
	for n := range sizes {
		if n > top {
			top = n
		}
	}
	paths := make([]string, top)
	for i := range paths {
		paths[i] = filepath.Join(root, fmt.Sprintf("f%04d", i))
		os.WriteFile(paths[i], []byte(fmt.Sprintf("content-%d", i)), 0o644)
	}
	var comparisons int64
	check := func(label string, n int, hashFn func(l []string) (string, error), bySize map[string]int) {
		l := paths[:n]
		d0, err := hashFn(l)
		if err != nil {
			run.Report(ev.Violation{Key: fmt.Sprintf("long %s n=%d", label, n), Class: "error-on-readable-files", What: fmt.Sprintf("%s, %d readable files: Hash returned %v", label, n, err), Case: map[string]any{"n": n, "mode": label}})
			return
		}
		if other, ok := bySize[d0]; ok {
			run.Report(ev.Violation{Key: fmt.Sprintf("long-size %s n=%d", label, n), Class: "adding-files-keeps-digest", What: fmt.Sprintf("%s: lists of %d and %d files have the same digest", label, other, n), Case: map[string]any{"n": n, "mode": label}})
		}
		bySize[d0] = n
		rev := make([]string, n)
		for i := range rev {
			rev[i] = l[n-1-i]
		}
		if d, _ := hashFn(rev); d != d0 {
			run.Report(ev.Violation{Key: fmt.Sprintf("long-order %s n=%d", label, n), Class: "digest-depends-on-order", What: fmt.Sprintf("%s, %d files: reversing the list changes the digest", label, n), Case: map[string]any{"n": n, "mode": label}})
		}
		if n >= 1000 {
			// the same list again: with this many files the order in which results arrive varies from call to call
			for rep := 0; rep < 6; rep++ {
				if d, _ := hashFn(l); d != d0 {
					run.Report(ev.Violation{Key: fmt.Sprintf("long-repeat %s n=%d", label, n), Class: "same-files-different-digest", What: fmt.Sprintf("%s, %d files: two calls on the same unchanged list gave different digests", label, n), Case: map[string]any{"n": n, "mode": label}})
					break
				}
			}
		}
		comparisons++
		// change each single file in turn (all positions for short lists; first, last, middle and boundaries for long ones)
		var positions []int
		if n <= 16 {
			for i := 0; i < n; i++ {
				positions = append(positions, i)
			}
		} else {
			positions = []int{0, 1, n / 2, n - 2, n - 1}
			for w := 1; w <= runtime.NumCPU()*4; w *= 2 {
				if n-w-1 > 1 {
					positions = append(positions, n-w-1)
				}
			}
		}
		for _, i := range positions {
			old, _ := os.ReadFile(paths[i])
			info, _ := os.Stat(paths[i])
			for variant := 0; variant < 2; variant++ {
				if variant == 0 {
					os.WriteFile(paths[i], append(append([]byte{}, old...), '!'), 0o644)
				} else {
					// same length, same modification time, same mode: only the bytes differ (cp -p, touch -r, a coarse clock)
					flipped := append([]byte{}, old...)
					flipped[len(flipped)-1] ^= 1
					os.WriteFile(paths[i], flipped, 0o644)
					os.Chtimes(paths[i], info.ModTime(), info.ModTime())
				}
				d, _ := hashFn(l)
				os.WriteFile(paths[i], old, 0o644)
				os.Chtimes(paths[i], info.ModTime(), info.ModTime())
				comparisons++
				if d == d0 {
					what := "changing the content"
					if variant == 1 {
						what = "changing the content while keeping size, mode and modification time"
					}
					run.Report(ev.Violation{Key: fmt.Sprintf("long-change %s n=%d i=%d v=%d", label, n, i, variant), Class: "content-change-keeps-digest",
						What: fmt.Sprintf("%s, list of %d files: %s of file %d leaves the digest unchanged", label, n, what, i), Case: map[string]any{"n": n, "i": i, "mode": label}})
				}
			}
		}
	}
	// free-running, real NumCPU
	by := map[string]int{}
	var ns []int
	for n := range sizes {
		ns = append(ns, n)
	}
	sort.Ints(ns)
	for _, n := range ns {
		check(fmt.Sprintf("free-running NumCPU=%d", runtime.NumCPU()), n, func(l []string) (string, error) {
			d, err, crash := freeHash(l)
			if crash != "" {
				freeHashReport(run, fmt.Sprintf("list of %d files", len(l)), crash)
				return "", fmt.Errorf("crashed")
			}
			return d, err
		}, by)
	}
	// controlled NumCPU, default schedule
	for cpu := 1; cpu <= 3; cpu++ {
		by := map[string]int{}
		for n := 0; n <= 13; n++ {
			check(fmt.Sprintf("controlled NumCPU=%d", cpu), n, func(l []string) (string, error) {
				var d string
				var err error
				r := vsched.Run(vsched.Options{NumCPU: cpu, Budget: 200000}, func() { d, err = hash.New().Hash(l) })
				if len(r.Panics) > 0 || r.Deadlock || r.Livelock {
					return "", fmt.Errorf("execution did not complete: panics=%v deadlock=%v", r.Panics, r.Deadlock)
				}
				return d, err
			}, by)
		}
	}
	return comparisons
}

// ---------------------------------------------------------------------------

func schedSelfTest(root string) {
	// replay one recorded schedule twice: identical observations or the harness is not deterministic
	es := []hentry{{Kind: "file", Path: "a", Content: "x"}, {Kind: "file", Path: "b", Content: "y"}}
	os.MkdirAll(root, 0o755)
	materialiseEntries(root, es)
	files := []string{filepath.Join(root, "a"), filepath.Join(root, "b")}
	var d string
	body := func() { d, _ = hash.New().Hash(files) }
	r0 := vsched.Run(vsched.Options{NumCPU: 2}, body)
	choices := make([]int, len(r0.Points))
	for i, p := range r0.Points {
		if p.Width > 1 && i%3 == 1 {
			choices[i] = 1
		}
	}
	// the modified sequence may diverge in width further on; cut it at the first change
	cut := len(choices)
	for i, c := range choices {
		if c != 0 {
			cut = i + 1
			break
		}
	}
	choices = choices[:cut]
	r1 := vsched.Run(vsched.Options{NumCPU: 2, Prefix: choices}, body)
	d1 := d
	r2 := vsched.Run(vsched.Options{NumCPU: 2, Prefix: choices}, body)
	if !reflect.DeepEqual(r1.Points, r2.Points) || d1 != d || r1.Diverged != "" || r2.Diverged != "" {
		ev.Fatal("schedmc determinism self-test failed: replaying the same choice sequence gave different executions")
	}
}

func schedCheck(prop, tier string) int {
	run := ev.NewRun(prop, tier, "model_checking", "schedmc")
	schedSelfTest(filepath.Join(pool.Scratch, "selftest"))
	cfgs := schedConfigs(prop, tier)
	shared := filepath.Join(pool.Scratch, "h")
	os.MkdirAll(shared, 0o755)
	if prop == "C04" {
		materialiseEntries(shared, c04Entries())
	} else {
		materialiseEntries(shared, c18Entries())
		materialiseEntries(shared, []hentry{{Kind: "bigfile", Path: "big"}})
	}
	if os.Geteuid() == 0 && os.Getenv("VERIF_NO_DROP") != "" {
		ev.Fatal("C18 needs an unprivileged worker user for its unreadable entry; do not set VERIF_NO_DROP")
	}
	per := 4
	if prop == "C18" {
		per = 8
	}
	nsh := (len(cfgs) + per - 1) / per
	var mu sync.Mutex
	var execs, points, pruned, states, abandoned int64
	outcomes := map[string]int64{}
	byMultiset := map[string]map[string]string{} // multiset -> digest -> config that produced it
	capped := false
	deadline := time.Now().Add(budget(tier))
	pool.Parallel(nsh, func(k int) {
		if time.Now().After(deadline) {
			mu.Lock()
			capped = true
			mu.Unlock()
			return
		}
		sbroot := filepath.Join(pool.Scratch, fmt.Sprintf("sched.%d", k))
		os.MkdirAll(sbroot, 0o777)
		pool.ChownNobody(sbroot)
		defer func() {
			filepath.Walk(sbroot, func(p string, info os.FileInfo, err error) error { os.Chmod(p, 0o755); return nil })
			os.RemoveAll(sbroot)
		}()
		out := pool.RunWorker([]string{"sched", prop, tier, strconv.Itoa(k * per), strconv.Itoa((k + 1) * per)}, nil, budget(tier), true, "VERIF_SANDBOX="+sbroot, "VERIF_SCHED_ROOT="+shared)
		if out.TimedOut && out.ExitCode != 3 {
			// the wall-clock budget ran out (a loaded machine, a slower tree): not a verdict about the property
			run.Add("workers_out_of_budget", 1)
			run.Set("exhaustive", false)
			run.Set("cap", "a worker exceeded the wall-clock budget of this tier; its share of the space was not completed")
			return
		}
		if out.Crashed() {
			c := cfgs[min(int(out.Progress[0]), len(cfgs)-1)]
			run.Report(ev.Violation{Key: "worker-crash " + c.describe(), Class: "process-crash", What: fmt.Sprintf("worker died (exit=%d signal=%s timeout=%v) exploring %s: %s", out.ExitCode, out.Signal, out.TimedOut, c.describe(), firstLines(string(out.Stderr), 8)),
				Case: map[string]any{"cfg": c}})
			return
		}
		var rs []schedResult
		if err := json.Unmarshal(out.Stdout, &rs); err != nil {
			ev.Fatal("bad worker output: %v %s", err, out.Stderr)
		}
		mu.Lock()
		for i, r := range rs {
			c := cfgs[k*per+i]
			execs += r.Execs
			points += r.Points
			pruned += r.Pruned
			states += r.States
			if r.Capped {
				capped = true
			}
			if r.Nondet != "" {
				abandoned++
			}
			for d, n := range r.Digests {
				key := d
				if strings.HasPrefix(d, "digest:") {
					key = "digest"
					if byMultiset[r.Multiset] == nil {
						byMultiset[r.Multiset] = map[string]string{}
					}
					byMultiset[r.Multiset][d] = c.describe()
				}
				outcomes[key] += n
			}
			if len(run.Coverage) >= 0 && i == 0 && k%7 == 0 {
				run.Sample(map[string]any{"config": c.describe(), "mode": c.Mode, "delay_bound": c.DB, "env_bound": c.EB, "faults": c.Faults, "executions": r.Execs, "outcomes": r.Digests})
			}
		}
		mu.Unlock()
		for _, r := range rs {
			for _, v := range r.Viol {
				run.Report(v)
			}
		}
	})
	ncoll, npairs := 0, int64(0)
	if prop == "C04" {
		// one digest per multiset of (path, content) across permutations, duplicates patterns, CPU counts and schedules
		for ms, ds := range byMultiset {
			if len(ds) > 1 {
				var who []string
				for d, c := range ds {
					who = append(who, fmt.Sprintf("%.19s from %s", d, c))
				}
				sort.Strings(who)
				// lists with different duplicate patterns are different multisets, so this is a real dependence on order/CPU/schedule
				run.Report(ev.Violation{Key: "multiset " + ms, Class: "digest-depends-on-order-or-cpus", What: fmt.Sprintf("files {%s}: %d different digests: %s", ms, len(ds), strings.Join(who, " | ")), Case: map[string]any{"multiset": ms}})
			}
		}
		ncoll, npairs = c04Sensitivity(run, tier)
		run.Set("sensitivity_collections", ncoll)
		run.Set("sensitivity_pairs_compared", npairs)
		run.Set("multisets", len(byMultiset))
	}
	// the limit on open files as an environment answer (both properties: digest and clean return)
	hashUnderFdLimits(run)
	// supplementary free-running pass under the race detector (never the deciding step)
	if f := os.Getenv("VERIF_SUPP"); f != "" {
		var ro struct {
			Runs   int64          `json:"hash_calls"`
			Procs  []int          `json:"gomaxprocs"`
			Shapes int            `json:"list_shapes"`
			Viol   []ev.Violation `json:"viol"`
		}
		if data, err := os.ReadFile(f); err == nil && json.Unmarshal(data, &ro) == nil {
			for _, v := range ro.Viol {
				run.Report(v)
			}
			run.Set("supplementary_race_pass", map[string]any{"hash_calls_under_race_detector": ro.Runs, "gomaxprocs": ro.Procs, "list_shapes": ro.Shapes,
				"what": "the unmodified hash package, free-running, built with -race: empty / short / duplicate / directory / missing / dangling / unreadable lists and sizes NumCPU-1, NumCPU, NumCPU+1, 4*NumCPU and 1000 with a missing entry at front, middle and end, each list hashed alone and then by four callers sharing the one slice; goroutine count must settle to the baseline. Supplementary only: it can add alarms backed by a race-detector report, it never decides the property"})
		}
	}
	run.Set("states", int64(len(cfgs))+states)
	run.Set("transitions", points)
	run.Set("traces_validated_against_impl", execs)
	run.Set("evaluations", execs+int64(ncoll))
	run.Set("distinct_nontrivial", execs-pruned)
	run.Set("schedules_explored", execs)
	run.Set("schedules_pruned_by_state_key", pruned)
	run.Set("configurations", len(cfgs))
	if abandoned > 0 {
		run.Set("configurations_abandoned_because_executions_are_not_independent", abandoned)
	}
	run.Set("outcomes", outcomes)
	run.Set("exhaustive", !capped)
	run.Set("rule", "each configuration (list of entries x NumCPU) is executed on the mechanically rewritten hash package under a controlled scheduler in two modes: (pruned) EVERY interleaving and every injected-fault combination, with state-key pruning of already visited scheduler states; (delay) without pruning, every choice sequence with <= 2 (1 for the longest lists; thorough 3/2) non-default scheduling choices and <= 1 (thorough 2) injected faults; states = configurations + distinct scheduler states visited in pruned mode; transitions = choice points passed; each execution is a distinct choice sequence (distinct_nontrivial = complete, unpruned executions)")
	run.Assumes("scheduling points at channel/WaitGroup/mutex operations, goroutine start and the I/O calls between them are sufficient: unsynchronised memory accesses are invisible to a cooperative scheduler (supplementary free-running pass only)",
		"the rewriter preserves semantics (mechanical, fails loudly on select)", "SHA-256 is collision free")
	return run.Finish()
}

func schedReplay(path string) int {
	var v ev.Violation
	data, _ := os.ReadFile(path)
	json.Unmarshal(data, &v)
	var c schedCfg
	json.Unmarshal(pool.MustJSON(v.Case), &c)
	if _, ok := v.Case["open_file_limit"]; ok {
		return fdlimitReplay(v, path)
	}
	if len(c.Entries) == 0 {
		fmt.Println("replay file has no schedule (aggregate finding); re-run the check")
		return 2
	}
	root := filepath.Join(pool.Scratch, "replay")
	os.MkdirAll(root, 0o755)
	materialiseEntries(root, c.Entries)
	files := make([]string, len(c.List))
	for i, k := range c.List {
		files[i] = root + string(filepath.Separator) + c.Entries[k].Path // not Join: the spelling is part of the entry
	}
	var digest string
	var herr error
	r := vsched.Run(vsched.Options{NumCPU: c.NumCPU, Faults: c.Faults, Prefix: c.Choices, Budget: 20000}, func() { digest, herr = hash.New().Hash(files) })
	fmt.Printf("replaying %s: %s choices %v\n  digest=%q err=%v deadlock=%v leaked=%d livelock=%v panics=%d\n", v.Property, c.describe(), c.Choices, digest, herr, r.Deadlock, r.Leaked, r.Livelock, len(r.Panics))
	for _, p := range r.Panics {
		fmt.Println("  " + firstLines(p, 4))
	}
	bad := len(r.Panics) > 0 || r.Deadlock || r.Leaked > 0 || r.Livelock || (herr == nil && c.hasBad()) || (herr != nil && c.Prop == "C04")
	if bad {
		fmt.Printf("VIOLATION property=%s replay=%s\n", v.Property, path)
		return 1
	}
	fmt.Println("no violation on replay")
	return 0
}

// ---------------------------------------------------------------------------
// C08, schedule part: each parse is a two-goroutine schedule (lexer goroutine and
// parser over an unbuffered channel). Every interleaving of every short input.

func init() {
	checks["C08sched"] = c08SchedCheck
	workers["sched08"] = c08SchedWorker
	replays["schedmc-c08"] = c08SchedReplay
}

type c08SchedOut struct {
	Inputs   int64          `json:"inputs"`
	Execs    int64          `json:"execs"`
	States   int64          `json:"states"`
	MaxSched int64          `json:"max_schedules_per_input"`
	Leaky    int64          `json:"inputs_leaving_the_lexer_goroutine_blocked"`
	Budget   int64          `json:"workers_out_of_budget"`
	Viol     []ev.Violation `json:"viol"`
}

func c08SchedOne(x string, res *c08SchedOut) {
	var outcome string
	body := func() {
		tree, err := parser.New(x).Parse()
		if err != nil {
			outcome = "E:" + err.Error()
		} else {
			outcome = "T:" + tree.String() + fmt.Sprintf("|%d", len(tree.Nodes))
		}
	}
	seen := map[string][]int{}
	report := func(cls, what string, choices []int) {
		if len(res.Viol) < 20 {
			res.Viol = append(res.Viol, ev.Violation{Engine: "schedmc-c08", Key: strconv.Quote(x) + " " + cls, Class: cls, What: fmt.Sprintf("input %s schedule %v: %s", strconv.Quote(x), choices, what),
				Case: map[string]any{"input": x, "choices": choices}})
		}
	}
	leaky := false
	st := explore(vsched.Options{Budget: 5000}, body, "pruned", 0, 0, 200000, func(r *vsched.Result, choices []int) {
		switch {
		case len(r.Panics) > 0:
			report("panic-in-goroutine", firstLines(r.Panics[0], 3), choices)
		case r.Deadlock:
			report("deadlock", "the parse never returns: "+strings.Join(r.BlockedAt, "; "), choices)
		case r.Livelock:
			report("livelock", "operation budget exceeded: lexer or parser spins", choices)
		default:
			if r.Leaked > 0 {
				leaky = true
			}
			if _, ok := seen[outcome]; !ok {
				seen[outcome] = choices
			}
		}
	})
	if len(seen) > 1 {
		var outs []string
		for o := range seen {
			outs = append(outs, strconv.Quote(clip(o)))
		}
		sort.Strings(outs)
		report("result-depends-on-schedule", fmt.Sprintf("%d different results over the interleavings: %s", len(seen), strings.Join(outs, " vs ")), nil)
	}
	res.Inputs++
	res.Execs += st.Execs
	res.States += st.StatesSeen
	if st.Execs > res.MaxSched {
		res.MaxSched = st.Execs
	}
	if leaky {
		res.Leaky++
	}
}

// spaces of the schedule part: every short alphabet string, and every single edit of
// programs that contain a task body, a '#' inside a body and a later error (inputs on
// which a lexer that runs ahead of the parser would have something to run ahead into)
func c08SchedSpaces(tier string) []lang.Space {
	n := 3
	if tier == "thorough" {
		n = 4
	}
	bases := []string{
		"task a() {\n    echo a\n}\nX := \"y\"\n",
		"task a() {\n    echo # c\n}\ntask b( {\nY := \"unterminated\n",
		"# c\ntask a(\"x\", b) -> (\"o\", X) {\n    echo {{.X}}\n    go test ./...\n}\n\nX := join(\"a\", \"b\")\n",
	}
	return []lang.Space{lang.SigmaSpace{N: n}, lang.EditSpace{Label: "sched-edit1", Bases: bases, Chunks: 64}}
}

// worker: mc worker sched08 <tier> <space> <lo> <hi>
func c08SchedWorker(args []string) {
	si, _ := strconv.Atoi(args[1])
	sp := c08SchedSpaces(args[0])[si]
	lo, _ := strconv.ParseInt(args[2], 10, 64)
	hi, _ := strconv.ParseInt(args[3], 10, 64)
	var res c08SchedOut
	prog := pool.OpenProgress()
	prog.Watchdog(60 * time.Second)
	for i := lo; i < hi; i++ {
		sp.Gen(i, func(in lang.Input) {
			prog.Announce(i, 1)
			c08SchedOne(in.Text, &res)
		})
	}
	os.Stdout.Write(pool.MustJSON(res))
}

func c08SchedCheck(tier string) int {
	spaces := c08SchedSpaces(tier)
	type shard struct {
		si     int
		lo, hi int64
	}
	var shards []shard
	for si, sp := range spaces {
		n := sp.Count()
		per := (n + 127) / 128
		for lo := int64(0); lo < n; lo += per {
			hi := lo + per
			if hi > n {
				hi = n
			}
			shards = append(shards, shard{si, lo, hi})
		}
	}
	var mu sync.Mutex
	var total c08SchedOut
	failed := false
	pool.Parallel(len(shards), func(k int) {
		sh := shards[k]
		sp := spaces[sh.si]
		out := pool.RunWorker([]string{"sched08", tier, strconv.Itoa(sh.si), strconv.FormatInt(sh.lo, 10), strconv.FormatInt(sh.hi, 10)}, nil, budget(tier), true)
		mu.Lock()
		defer mu.Unlock()
		if out.TimedOut && out.ExitCode != 3 {
			total.Budget++ // wall-clock budget, not a verdict (a hang inside one input ends with the watchdog's exit code)
			return
		}
		if out.Crashed() {
			var culprit string
			sp.Gen(out.Progress[0], func(in lang.Input) {
				if culprit == "" {
					culprit = in.Text
				}
			})
			total.Viol = append(total.Viol, ev.Violation{Engine: "schedmc-c08", Key: strconv.Quote(culprit) + " worker", Class: "process-crash-or-hang",
				What: fmt.Sprintf("worker died or hung (exit=%d signal=%s timeout=%v) exploring the schedules of an input near %s: %s", out.ExitCode, out.Signal, out.TimedOut, strconv.Quote(culprit), firstLines(string(out.Stderr), 5)), Case: map[string]any{"input": culprit}})
			return
		}
		var r c08SchedOut
		if err := json.Unmarshal(out.Stdout, &r); err != nil {
			failed = true
			return
		}
		total.Inputs += r.Inputs
		total.Execs += r.Execs
		total.States += r.States
		total.Leaky += r.Leaky
		if r.MaxSched > total.MaxSched {
			total.MaxSched = r.MaxSched
		}
		total.Viol = append(total.Viol, r.Viol...)
	})
	if failed {
		ev.Fatal("C08 schedule part: bad worker output")
	}
	dst := os.Getenv("VERIF_C08_SCHED_OUT")
	if dst == "" {
		os.Stdout.Write(pool.MustJSON(total))
		return 0
	}
	if err := os.WriteFile(dst, pool.MustJSON(total), 0o644); err != nil {
		ev.Fatal("%v", err)
	}
	fmt.Printf("C08 schedule part: inputs=%d schedules=%d states=%d violations=%d\n", total.Inputs, total.Execs, total.States, len(total.Viol))
	return 0
}

func c08SchedReplay(path string) int {
	var v ev.Violation
	data, _ := os.ReadFile(path)
	json.Unmarshal(data, &v)
	x, _ := v.Case["input"].(string)
	var res c08SchedOut
	c08SchedOne(x, &res)
	fmt.Printf("replaying C08 (schedules) on input %s: %d schedules explored\n", strconv.Quote(x), res.Execs)
	if len(res.Viol) > 0 {
		fmt.Printf("  %s\nVIOLATION property=C08 replay=%s\n", res.Viol[0].What, path)
		return 1
	}
	fmt.Println("no violation on replay")
	return 0
}

// ---------------------------------------------------------------------------
// C17, schedule part: file.Find under the controlled scheduler (a no-op today, Find is
// sequential: one schedule per call). Should discovery ever probe directories
// concurrently, every interleaving of every call is explored and the answer must be the
// same, correct one on all of them.

func init() {
	checks["C17sched"] = c17SchedCheck
	workers["sched17"] = c17SchedWorker
}

type c17SchedOut struct {
	Calls  int64          `json:"calls"`
	Execs  int64          `json:"execs"`
	Budget int64          `json:"workers_out_of_budget"`
	Viol   []ev.Violation `json:"viol"`
}

// worker: mc worker sched17 <lo> <hi>   (top-level variant range, sandbox in VERIF_SANDBOX)
func c17SchedWorker(args []string) {
	lo, _ := strconv.Atoi(args[0])
	hi, _ := strconv.Atoi(args[1])
	root := os.Getenv("VERIF_SANDBOX")
	var res c17SchedOut
	base := filepath.Join(root, "w")
	unrelated := filepath.Join(base, "u", "v")
	os.MkdirAll(unrelated, 0o755)
	const depth = 3
	dirs := make([]string, depth)
	d := filepath.Join(base, "c")
	for i := 0; i < depth; i++ {
		d = filepath.Join(d, "k")
		dirs[i] = d
	}
	os.MkdirAll(dirs[depth-1], 0o755)
	levels := make([]int, depth)
	var rec func(i int)
	rec = func(i int) {
		if i == depth {
			for start := 0; start < depth; start++ {
				for stop := 0; stop <= start; stop++ { // start at or below stop: at most three directories, i.e. threads, are involved
					c := c17Case{Levels: append([]int{}, levels...), Start: start, Stop: stop}
					stopDir := unrelated
					if stop >= 0 {
						stopDir = dirs[stop]
					}
					res.Calls++
					var out c17Out
					outcomes := map[string]bool{}
					st := explore(vsched.Options{Budget: 20000}, func() { out = c17Find(dirs[start], stopDir) }, "pruned", 0, 0, 20000, func(r *vsched.Result, choices []int) {
						cls, what := "", ""
						switch {
						case len(r.Panics) > 0:
							cls, what = "panic-in-goroutine", firstLines(r.Panics[0], 3)
						case r.Deadlock:
							cls, what = "does-not-terminate", "Find never returns: "+strings.Join(r.BlockedAt, "; ")
						case r.Livelock:
							cls, what = "does-not-terminate", "operation budget exceeded"
						case r.Leaked > 0:
							cls, what = "goroutine-leak", strings.Join(r.LeakedAt, "; ")
						default:
							// the sequential oracle on this schedule's answer (levels padded to the depth the oracle expects)
							cc := c
							cc.Levels = append(append([]int{}, c.Levels...), 0)
							cls, what = c17Oracle(cc, append(append([]string{}, dirs...), filepath.Join(dirs[depth-1], "k")), unrelated, out)
							outcomes[out.Path+"|"+out.Err] = true
						}
						if cls != "" && len(res.Viol) < 20 {
							var m map[string]any
							json.Unmarshal(pool.MustJSON(c), &m)
							res.Viol = append(res.Viol, ev.Violation{Engine: "schedmc-c17", Key: fmt.Sprintf("sched levels=%v start=%d stop=%d %s", c.Levels, start, stop, cls), Class: cls,
								What: fmt.Sprintf("chain %s start=level%d stop=%s, schedule %v: %s", c17Describe(c), start, c17StopName(stop), choices, what), Case: m})
						}
					})
					res.Execs += st.Execs
					if len(outcomes) > 1 && len(res.Viol) < 20 {
						res.Viol = append(res.Viol, ev.Violation{Engine: "schedmc-c17", Key: fmt.Sprintf("sched levels=%v start=%d stop=%d nondeterministic", c.Levels, start, stop), Class: "result-depends-on-schedule",
							What: fmt.Sprintf("chain %s start=level%d stop=%s: %d different answers over the interleavings", c17Describe(c), start, c17StopName(stop), len(outcomes)), Case: map[string]any{"levels": c.Levels}})
					}
				}
			}
			return
		}
		l, h := 0, 12
		if i == 0 {
			l, h = lo, hi
		}
		for v := l; v < h; v++ {
			if v&3 != 0 && v&3 != 3 {
				continue // other entries: none or both (the sequential check covers all four)
			}
			levels[i] = v
			c17Populate(dirs[i], v)
			rec(i + 1)
			c17Clear(dirs[i])
		}
	}
	rec(0)
	os.Stdout.Write(pool.MustJSON(res))
}

func c17SchedCheck(tier string) int {
	var mu sync.Mutex
	var total c17SchedOut
	pool.Parallel(12, func(k int) {
		sbroot := filepath.Join(pool.Scratch, fmt.Sprintf("c17s.%d", k))
		os.MkdirAll(sbroot, 0o777)
		pool.ChownNobody(sbroot)
		defer os.RemoveAll(sbroot)
		out := pool.RunWorker([]string{"sched17", strconv.Itoa(k), strconv.Itoa(k + 1)}, nil, budget(tier), true, "VERIF_SANDBOX="+sbroot)
		mu.Lock()
		defer mu.Unlock()
		if out.TimedOut && out.ExitCode != 3 {
			total.Budget++
			return
		}
		if out.Crashed() {
			total.Viol = append(total.Viol, ev.Violation{Engine: "schedmc-c17", Key: fmt.Sprintf("sched worker %d", k), Class: "process-crash-or-hang",
				What: fmt.Sprintf("worker died or hung (exit=%d signal=%s timeout=%v): %s", out.ExitCode, out.Signal, out.TimedOut, firstLines(string(out.Stderr), 5)), Case: map[string]any{"k": k}})
			return
		}
		var r c17SchedOut
		if json.Unmarshal(out.Stdout, &r) == nil {
			total.Calls += r.Calls
			total.Execs += r.Execs
			total.Viol = append(total.Viol, r.Viol...)
		}
	})
	dst := os.Getenv("VERIF_C17_SCHED_OUT")
	if dst == "" {
		os.Stdout.Write(pool.MustJSON(total))
		return 0
	}
	os.WriteFile(dst, pool.MustJSON(total), 0o644)
	fmt.Printf("C17 schedule part: calls=%d schedules=%d violations=%d\n", total.Calls, total.Execs, len(total.Viol))
	return 0
}
