package main

import (
	"encoding/json"
	"fmt"
	"io/fs"
	"os"
	"path/filepath"
	"sort"
	"strconv"
	"strings"
	"sync"

	"github.com/FollowTheProcess/spok/file"
	"github.com/FollowTheProcess/spok/iostream"
	"github.com/FollowTheProcess/spok/parser"
	"github.com/FollowTheProcess/spok/shell"
	"github.com/bmatcuk/doublestar/v4"

	"verifharness/internal/ev"
	"verifharness/internal/pool"
	"verifharness/internal/proj"
)

func init() {
	checks["C05"] = c05Check
	workers["c05"] = c05Worker
	replays["cfgmc-c05"] = c05Replay
}

func c05Pool(tier string) []string {
	p := []string{"a.x", "b.x", "z.y", "-a.x", ".h.x", "d/a.x", "d/.h.x", ".hd/a.x", "d/.hd/a.x", "d/e/a.x", "dx/a.x", "@zl.x",
		// a directory whose name is pattern syntax (file routers, template directories)
		"[d]/a.x"}
	if tier == "thorough" {
		p = append(p, "~t.x", "d/e/.h.x", "e/a.x")
	}
	return p
}

func c05Patterns(tier string) []string {
	p := []string{"*.x", "**/*.x", "**", "d/**", "d/*", "*/*", "*", "{a,b}*.x", "**/a.x", "d/**/*.x",
		"*/.h.x", "[a-b]*.x", "*.y", "**/*.y", "d/e/*", "?*.x", "**/.h.x", ".*", "d/*.x", "*/*/*",
		// a trailing slash asks for directories only: no regular file is denoted
		"*/", "d/*/", "**/*/"}
	if tier == "thorough" {
		p = append(p, "**/e/*", "d/**/a*.x", "**/*", ".hd/*", "d/.hd/*", "*a.x", "**/d/*.x", "[!a]*.x", "{d,e}/*a.x")
	}
	return p
}

// c05Text: one task that lists every pattern as a dependency (in the given order)
// and as an output (in reverse order), so the order in which the patterns are
// expanded is fixed by the text and not by Go's map iteration.
func c05Text(patterns []string) string {
	q := make([]string, len(patterns))
	r := make([]string, len(patterns))
	for i, p := range patterns {
		q[i] = `"` + p + `"`
		r[len(patterns)-1-i] = `"` + p + `"`
	}
	return "task daa(" + strings.Join(q, ", ") + ") -> (" + strings.Join(r, ", ") + ") {\n}\n"
}

func reversed(l []string) []string {
	out := make([]string, len(l))
	for i, x := range l {
		out[len(l)-1-i] = x
	}
	return out
}

func letters(i int) string { return string(rune('a'+i/26)) + string(rune('a'+i%26)) }

// c05Reference: regular, non-hidden files matching the pattern (full walk).
func c05Reference(root, pattern string) (files []string) {
	filepath.WalkDir(root, func(p string, d fs.DirEntry, err error) error {
		if err != nil || p == root {
			return nil
		}
		rel, _ := filepath.Rel(root, p)
		regular := d.Type().IsRegular()
		if d.Type()&fs.ModeSymlink != 0 {
			// a link to a regular file is a file of the tree like any other
			if st, err := os.Stat(p); err == nil && st.Mode().IsRegular() {
				regular = true
			}
		}
		if regular && !strings.HasPrefix(rel, ".") {
			if ok, _ := doublestar.Match(pattern, rel); ok {
				files = append(files, rel)
			}
		}
		return nil
	})
	sort.Strings(files)
	return
}

type c05Result struct {
	Trees    int64            `json:"trees"`
	Expans   int64            `json:"expansions"`
	Nontriv  int64            `json:"nontriv"`
	Outcomes map[string]int64 `json:"outcomes"`
	Viol     []ev.Violation   `json:"viol"`
	Samples  []map[string]any `json:"samples"`
}

// expandAll returns pattern -> relative regular files / relative dirs of one Run.
func c05Expand(sf *file.SpokFile, root string) (map[string][]string, map[string][]string, error) {
	if _, err := sf.Run(iostream.Null(), shell.NewIntegratedRunner(), false, "daa"); err != nil {
		return nil, nil, err
	}
	files, dirs := map[string][]string{}, map[string][]string{}
	for pat, list := range sf.Globs {
		for _, abs := range list {
			rel, err := filepath.Rel(root, abs)
			if err != nil {
				rel = abs
			}
			st, err := os.Lstat(abs)
			if err == nil && st.IsDir() {
				dirs[pat] = append(dirs[pat], rel)
			} else {
				files[pat] = append(files[pat], rel)
			}
		}
		sort.Strings(files[pat])
		sort.Strings(dirs[pat])
	}
	return files, dirs, nil
}

func c05Tree(sb *proj.Sandbox, paths []string) {
	sb.ResetProject()
	os.WriteFile(filepath.Join(sb.Dir, "spokfile"), []byte("# placeholder\n"), 0o644)
	for _, p := range paths {
		if p == "@zl.x" {
			// a symbolic link to a file of the tree; never dangling (hashing a dangling link is an error, rightly: C18)
			for _, q := range paths {
				if q == "a.x" {
					os.Symlink("a.x", filepath.Join(sb.Dir, "zl.x"))
				}
			}
			continue
		}
		full := filepath.Join(sb.Dir, p)
		os.MkdirAll(filepath.Dir(full), 0o755)
		os.WriteFile(full, []byte(p), 0o644)
	}
}

func c05Eval(sb *proj.Sandbox, paths, patterns []string, text string, res *c05Result) {
	c05Tree(sb, paths)
	res.Trees++
	os.RemoveAll(filepath.Join(sb.Dir, ".spok"))
	tree, err := parser.New(text).Parse()
	if err != nil {
		ev.Fatal("c05 spokfile does not parse: %v", err)
	}
	report := func(pat, cls, what string) {
		res.Outcomes["violation:"+cls]++
		if len(res.Viol) < 40 {
			res.Viol = append(res.Viol, ev.Violation{Engine: "cfgmc-c05", Key: fmt.Sprintf("dir=%s tree=%v pattern=%s", filepath.Base(sb.Dir), paths, pat), Class: cls,
				What: fmt.Sprintf("project dir %q tree %v pattern %q: %s", filepath.Base(sb.Dir), paths, pat, what), Case: map[string]any{"paths": paths, "pattern": pat, "dir": filepath.Base(sb.Dir), "text": text}})
		}
	}
	var first map[string][]string
	for round := 0; round < 3; round++ {
		// round 0: fresh SpokFile, no .spok; round 1: fresh SpokFile, .spok present; round 2: same SpokFile again
		var sf *file.SpokFile
		sf, err = file.New(tree, sb.Dir, proj.NopLogger{})
		if err != nil {
			ev.Fatal("c05 load: %v", err)
		}
		rounds := 1
		if round == 2 {
			rounds = 2
		}
		var files, dirs map[string][]string
		for k := 0; k < rounds; k++ {
			files, dirs, err = c05Expand(sf, sb.Dir)
			if err != nil {
				report("*", "expansion-error", err.Error())
				return
			}
		}
		for _, pat := range patterns {
			res.Expans++
			want := c05Reference(sb.Dir, pat)
			got := files[pat]
			if round == 0 {
				if len(want) > 0 {
					res.Nontriv++
				}
				if len(res.Samples) < 2 && len(want) > 1 {
					res.Samples = append(res.Samples, map[string]any{"tree": paths, "pattern": pat, "denotes": want})
				}
			}
			if strings.Join(got, "\x00") != strings.Join(want, "\x00") {
				cls := "wrong-files"
				if missing := diff(want, got); len(missing) > 0 {
					cls = "matching-file-omitted"
					if extra := diff(got, want); len(extra) > 0 {
						cls = "omitted-and-extra"
					}
				} else {
					cls = "non-matching-or-hidden-file-included"
				}
				report(pat, cls, fmt.Sprintf("expansion %d gives %v, reference (matching, not starting with a dot) %v", round, got, want))
				continue
			}
			for _, d := range dirs[pat] {
				ok, _ := doublestar.Match(strings.TrimSuffix(pat, "/"), strings.TrimSuffix(d, "/")) // a trailing slash only says "directories"
				if !ok || strings.HasPrefix(d, ".") {
					report(pat, "directory-included", fmt.Sprintf("directory %q in the result does not match / is hidden", d))
				}
			}
			if round == 0 {
				if first == nil {
					first = map[string][]string{}
				}
				first[pat] = got
			} else if strings.Join(first[pat], "\x00") != strings.Join(got, "\x00") {
				report(pat, "expansion-not-stable", fmt.Sprintf("first expansion %v, expansion %d of the unchanged tree %v", first[pat], round, got))
			}
			res.Outcomes["ok"]++
		}
	}
}

func diff(a, b []string) []string {
	m := map[string]bool{}
	for _, x := range b {
		m[x] = true
	}
	var out []string
	for _, x := range a {
		if !m[x] {
			out = append(out, x)
		}
	}
	return out
}

// worker: mc worker c05 <tier> <lo> <hi>   (subset masks)
func c05Worker(args []string) {
	tier := args[0]
	lo, _ := strconv.Atoi(args[1])
	hi, _ := strconv.Atoi(args[2])
	pl, pats := c05Pool(tier), c05Patterns(tier)
	text, textRev := c05Text(pats), c05Text(reversed(pats))
	// two project directories: a plain one and one whose own path contains glob meta characters
	sbs := []*proj.Sandbox{proj.NewSandbox(filepath.Join(os.Getenv("VERIF_SANDBOX"), "plain")), proj.NewSandboxNamed(filepath.Join(os.Getenv("VERIF_SANDBOX"), "meta"), "p[x]{a,b}*?")}
	res := c05Result{Outcomes: map[string]int64{}}
	prog := pool.OpenProgress()
	prog.Watchdog(60e9)
	for m := lo; m < hi; m++ {
		var paths []string
		for i, p := range pl {
			if m&(1<<i) != 0 {
				paths = append(paths, p)
			}
		}
		prog.Announce(int64(m), 0)
		for _, s := range sbs {
			c05Eval(s, paths, pats, text, &res)
			c05Eval(s, paths, pats, textRev, &res)
		}
	}
	os.Stdout.Write(pool.MustJSON(res))
}

// c05PatternsIn recovers the pattern list of a generated spokfile text.
func c05PatternsIn(text string) []string {
	var out []string
	seen := map[string]bool{}
	for _, part := range strings.Split(text, `"`) {
		if strings.Contains(part, "*") && !strings.ContainsAny(part, "(){}\n") && !seen[part] {
			seen[part] = true
			out = append(out, part)
		}
	}
	return out
}

func c05Check(tier string) int {
	run := ev.NewRun("C05", tier, "model_checking", "cfgmc-c05")
	pl, pats := c05Pool(tier), c05Patterns(tier)
	n := 1 << len(pl)
	per := n / 128
	var mu sync.Mutex
	total := c05Result{Outcomes: map[string]int64{}}
	pool.Parallel(n/per, func(k int) {
		sbroot := filepath.Join(pool.Scratch, fmt.Sprintf("c05.%d", k))
		os.MkdirAll(sbroot, 0o777)
		pool.ChownNobody(sbroot)
		defer os.RemoveAll(sbroot)
		out := pool.RunWorker([]string{"c05", tier, strconv.Itoa(k * per), strconv.Itoa((k + 1) * per)}, nil, budget(tier), true, "VERIF_SANDBOX="+sbroot)
		if out.TimedOut && out.ExitCode != 3 {
			// the wall-clock budget ran out (a loaded machine, a slower tree): not a verdict about the property
			run.Add("workers_out_of_budget", 1)
			run.Set("exhaustive", false)
			run.Set("cap", "a worker exceeded the wall-clock budget of this tier; its share of the space was not completed")
			return
		}
		if out.Crashed() {
			run.Report(ev.Violation{Key: fmt.Sprintf("worker-crash mask=%d", out.Progress[0]), Class: "process-crash-or-hang",
				What: fmt.Sprintf("worker died or hung (exit=%d signal=%s timeout=%v) on tree mask %d: %s", out.ExitCode, out.Signal, out.TimedOut, out.Progress[0], firstLines(string(out.Stderr), 6)),
				Case: map[string]any{"mask": out.Progress[0]}})
			return
		}
		var r c05Result
		if err := json.Unmarshal(out.Stdout, &r); err != nil {
			ev.Fatal("bad worker output: %v %s", err, out.Stderr)
		}
		mu.Lock()
		total.Trees += r.Trees
		total.Expans += r.Expans
		total.Nontriv += r.Nontriv
		for k, v := range r.Outcomes {
			total.Outcomes[k] += v
		}
		if len(total.Samples) < 6 {
			total.Samples = append(total.Samples, r.Samples...)
		}
		mu.Unlock()
		for _, v := range r.Viol {
			run.Report(v)
		}
	})
	for _, s := range total.Samples {
		run.Sample(s)
	}
	run.Set("states", total.Trees)
	run.Set("transitions", total.Expans)
	run.Set("traces_validated_against_impl", total.Expans)
	run.Set("evaluations", total.Expans)
	run.Set("distinct_nontrivial", total.Nontriv)
	run.Set("outcomes", total.Outcomes)
	run.Set("pool", pl)
	run.Set("patterns", pats)
	run.Set("rule", "each tree is built in two project directories (a plain name and a name containing the glob meta characters [ ] { } * ?) and expanded with the pattern list in both orders; states = directory trees (every subset of the path pool); transitions = (tree, pattern, expansion round) glob expansions through file.New + SpokFile.Run + SpokFile.Globs, each pattern used as dependency and as output; three rounds per tree (fresh, fresh with .spok present, same SpokFile twice); reference = doublestar.Match over a full walk minus paths starting with a dot; non-trivial = (tree, pattern) pairs whose reference denotation is non-empty")
	run.Assumes("doublestar.Match is the meaning of a pattern", "tmpfs ReadDir order is name order like the user's filesystems as seen through os.DirFS (fs.ReadDir sorts)")
	return run.Finish()
}

func c05Replay(path string) int {
	var v ev.Violation
	data, _ := os.ReadFile(path)
	json.Unmarshal(data, &v)
	var paths []string
	json.Unmarshal(pool.MustJSON(v.Case["paths"]), &paths)
	pat, _ := v.Case["pattern"].(string)
	dir, _ := v.Case["dir"].(string)
	text, _ := v.Case["text"].(string)
	if dir == "" {
		dir = "p"
	}
	if text == "" {
		text = c05Text([]string{pat})
	}
	sb := proj.NewSandboxNamed(filepath.Join(pool.Scratch, "replay"), dir)
	res := c05Result{Outcomes: map[string]int64{}}
	fmt.Printf("replaying C05: project dir %q tree %v pattern %q\n", dir, paths, pat)
	c05Eval(sb, paths, c05PatternsIn(text), text, &res)
	if len(res.Viol) > 0 {
		fmt.Printf("VIOLATION property=C05 replay=%s\n  %s\n", path, res.Viol[0].What)
		return 1
	}
	fmt.Println("no violation on replay")
	return 0
}
