package main

import (
	"encoding/json"
	"fmt"
	"os"
	"path/filepath"
	"sort"
	"strconv"
	"strings"
	"sync"

	"github.com/bmatcuk/doublestar/v4"

	"verifharness/internal/bin"
	"verifharness/internal/choose"
	"verifharness/internal/ev"
	"verifharness/internal/pool"
	"verifharness/internal/proj"
)

// histmc: explicit-state search over project histories. A state is
// (disk, reference model); a transition is one op of the alphabet, executed by the
// real code on the materialised disk. Serves C01 C02 C14 (and the history clause of C09).

func init() {
	for _, p := range []string{"C01", "C02", "C14"} {
		p := p
		checks[p] = func(tier string) int { return histCheck(p, tier) }
	}
	workers["hist"] = histWorker
	replays["histmc"] = histReplay
}

type htask struct {
	Name  string   `json:"name"`
	Lits  []string `json:"lits,omitempty"`
	Globs []string `json:"globs,omitempty"`
	Deps  []string `json:"deps,omitempty"`
	// Effect: the task's commands write EffVal into file EffFile (index+1 into Files; 0 = no effect)
	EffFile   int      `json:"eff_file,omitempty"`
	EffVal    string   `json:"eff_val,omitempty"`
	EffFrom   int      `json:"eff_from,omitempty"`   // instead of EffVal: copy the content of this file (index+1)
	Outs      []string `json:"outs,omitempty"`       // declared outputs (strings)
	KeepMtime bool     `json:"keep_mtime,omitempty"` // the effect restores the modification time of the directory it writes into (cp -a, rsync -a, touch -r, clamped build times)
	Empty     bool     `json:"empty,omitempty"`      // the task has no commands (nothing to observe but spok's own report)
}

// slot: tasks are told apart by name (a spokfile variant may define the same name differently):
// the model keeps one entry per name, at the index of the first definition of that name.
func (p hprog) slot(ti int) int {
	for j, t := range p.Tasks {
		if t.Name == p.Tasks[ti].Name {
			return j
		}
	}
	return ti
}

// dupNames: some name has more than one definition
func (p hprog) dupNames() bool {
	for i := range p.Tasks {
		if p.slot(i) != i {
			return true
		}
	}
	return false
}

type hfile struct {
	Path string   `json:"path"`
	Vals []string `json:"vals"` // "-" = absent
}

// hlink: a symbolic link (always present) to one of the program's files; paths relative to the project.
type hlink struct {
	Path string `json:"path"`
	File int    `json:"file"` // index into Files
}

type hprog struct {
	Name  string  `json:"name"`
	Tasks []htask `json:"tasks"`
	Files []hfile `json:"files"`
	Links []hlink `json:"links,omitempty"`
	// Reps > 1: every run op is executed that many times and the distinct outcomes are united.
	// Go randomises the iteration order of spok's own maps (e.g. SpokFile.Tasks); it cannot be
	// controlled from outside, so for programs where it could matter it is at least varied.
	Reps int `json:"reps,omitempty"`
	// FileOrd: the iteration order of SpokFile.Tasks and SpokFile.Vars inside file/file.go is a
	// choice point too (overlay/patch_file.py): every run op is executed under every permutation at
	// each such iteration, with at most one iteration per execution departing from sorted order
	// (deviation bound 1), on top of every order of the topological sort.
	FileOrd bool `json:"file_ord,omitempty"`
	// ReqMax > 0 limits the length of request lists (chains: requesting the last task runs everything)
	ReqMax int `json:"req_max,omitempty"`
	// Variants: the spokfile itself may be edited between invocations. Each variant is the subset
	// (by index) of Tasks that the spokfile defines; variant 0 is the initial one. Empty = all tasks, fixed.
	Variants [][]int `json:"variants,omitempty"`
}

// present reports whether task i is defined in variant v.
func (p hprog) present(v, i int) bool {
	if len(p.Variants) == 0 {
		return true
	}
	for _, k := range p.Variants[v] {
		if k == i {
			return true
		}
	}
	return false
}

func (p hprog) textOf(v int) string {
	if len(p.Variants) == 0 {
		return p.text()
	}
	q := p
	q.Variants = nil
	q.Tasks = nil
	for i, t := range p.Tasks {
		if p.present(v, i) {
			q.Tasks = append(q.Tasks, t)
		}
	}
	return q.text()
}

const absent = "-"

func (p hprog) text() string {
	var sb strings.Builder
	for _, t := range p.Tasks {
		var deps []string
		for _, d := range t.Deps {
			deps = append(deps, d)
		}
		for _, g := range t.Globs {
			deps = append(deps, `"`+g+`"`)
		}
		for _, l := range t.Lits {
			deps = append(deps, `"`+l+`"`)
		}
		eff := ""
		if t.EffFile > 0 {
			eff = fmt.Sprintf("    echo %s > \"$VPROJ/%s\"\n", t.EffVal, p.Files[t.EffFile-1].Path)
			if t.EffFrom > 0 {
				// shell builtins only (no fork): read the first line of the source, write it to the target
				eff = fmt.Sprintf("    read -r VCOPY < \"$VPROJ/%s\" && echo \"$VCOPY\" > \"$VPROJ/%s\"\n", p.Files[t.EffFrom-1].Path, p.Files[t.EffFile-1].Path)
			}
		}
		if t.KeepMtime && t.EffFile > 0 {
			dir := filepath.Dir("$VPROJ/" + p.Files[t.EffFile-1].Path)
			eff = fmt.Sprintf("    touch -r \"%s\" \"$VCTL/stamp\"\n%s    touch -r \"$VCTL/stamp\" \"%s\"\n", dir, eff, dir)
		}
		outs := ""
		if len(t.Outs) > 0 {
			outs = " -> (\"" + strings.Join(t.Outs, "\", \"") + "\")"
		}
		if t.Empty {
			fmt.Fprintf(&sb, "task %s(%s)%s {\n}\n\n", t.Name, strings.Join(deps, ", "), outs)
			continue
		}
		fmt.Fprintf(&sb, "task %s(%s)%s {\n    echo %s:1 >> \"$VLOG\"\n    test ! -e \"$VCTL/fail_%s\"\n%s    echo %s:3 >> \"$VLOG\"\n}\n\n", t.Name, strings.Join(deps, ", "), outs, t.Name, t.Name, eff, t.Name)
	}
	return sb.String()
}

func (p hprog) taskNames() []string {
	var n []string
	for _, t := range p.Tasks {
		n = append(n, t.Name)
	}
	return n
}

// dirVal: the path is a directory (patterns match directories too; they are not inputs).
const dirVal = "<dir>"

func lit(path string) hfile { return hfile{Path: path, Vals: []string{"v0", "v1"}} }
func globf(path string, vals ...string) hfile {
	return hfile{Path: path, Vals: vals}
}

func histCatalogue() []hprog {
	return []hprog{
		{Name: "P1-one-literal", Tasks: []htask{{Name: "ta", Lits: []string{"a.txt"}}}, Files: []hfile{lit("a.txt")}},
		{Name: "P2-one-glob", Tasks: []htask{{Name: "ta", Globs: []string{"*.src"}}},
			Files: []hfile{globf("x.src", absent, "v0", "v1"), globf("y.src", absent, "v0"), globf("d.txt", "v0", "v1")}},
		{Name: "P3-two-independent", Tasks: []htask{{Name: "ta", Lits: []string{"a.txt"}}, {Name: "tb", Lits: []string{"b.txt"}}}, Files: []hfile{lit("a.txt"), lit("b.txt")}},
		{Name: "P4-shared-file", Tasks: []htask{{Name: "ta", Lits: []string{"a.txt"}}, {Name: "tb", Lits: []string{"a.txt"}}}, Files: []hfile{lit("a.txt")}},
		{Name: "P5-file-and-fileless", Tasks: []htask{{Name: "ta", Lits: []string{"a.txt"}}, {Name: "tb"}}, Files: []hfile{lit("a.txt")}},
		{Name: "P6-chain", Tasks: []htask{{Name: "ta", Lits: []string{"a.txt"}}, {Name: "tb", Deps: []string{"ta"}, Lits: []string{"b.txt"}}}, Files: []hfile{lit("a.txt"), lit("b.txt")}},
		{Name: "P7-glob-literal-overlap", Tasks: []htask{{Name: "ta", Globs: []string{"*.src"}, Lits: []string{"a.txt"}}, {Name: "tb", Globs: []string{"*.src"}}},
			Files: []hfile{lit("a.txt"), globf("x.src", absent, "v0", "v1"), globf("sub/y.src", absent, "v0")}},
		// the same file reached twice: named literally and matched by the glob
		{Name: "P9-literal-also-globbed", Tasks: []htask{{Name: "ta", Globs: []string{"*.src"}, Lits: []string{"x.src"}}},
			Files: []hfile{globf("x.src", "v0", "v1", absent), globf("y.src", absent, "v0")}},
		// a literal dependency that can go missing: the run then aborts with an error after earlier tasks have run
		{Name: "P10-deletable-literal", Tasks: []htask{{Name: "ta", Lits: []string{"a.txt"}}, {Name: "tb", Lits: []string{"b.txt"}}},
			Files: []hfile{lit("a.txt"), globf("b.txt", "v0", absent)}},
		// commands that rewrite a dependency: 'fmt' rewrites the sources 'test' depends on ...
		{Name: "P11-rewrites-shared-input", Tasks: []htask{{Name: "ta", Lits: []string{"g.txt"}, EffFile: 1, EffVal: "gen"}, {Name: "tb", Deps: []string{"ta"}, Lits: []string{"g.txt"}}},
			Files: []hfile{globf("g.txt", "v0", "gen")}},
		// ... and a later task that bumps a file an earlier task of the same run depends on
		{Name: "P12-later-task-bumps-input", Tasks: []htask{{Name: "ta", Lits: []string{"g.txt"}}, {Name: "tb", Deps: []string{"ta"}, EffFile: 1, EffVal: "gen"}},
			Files: []hfile{globf("g.txt", "v0", "gen")}},
		// two tasks sharing their first glob, each with its own literal file, and up to three matches
		{Name: "P13-shared-glob-own-files", Reps: 2, FileOrd: true, Tasks: []htask{{Name: "ta", Globs: []string{"*.src"}, Lits: []string{"a.txt"}}, {Name: "tb", Globs: []string{"*.src"}, Lits: []string{"b.txt"}}},
			Files: []hfile{lit("a.txt"), lit("b.txt"), globf("x.src", "v0", "v1"), globf("y.src", "v0"), globf("z.src", "v0")}},
		// a task whose commands CREATE a file matched by another task's glob (a generated source)
		{Name: "P14-generates-glob-match", Tasks: []htask{{Name: "ta", Lits: []string{"seed.txt"}, EffFile: 3, EffVal: "gen"}, {Name: "tb", Deps: []string{"ta"}, Globs: []string{"*.src"}}},
			Files: []hfile{lit("seed.txt"), globf("x.src", "v0"), globf("g.src", absent, "gen")}},
		// two tasks with exactly the same file list, one before and one after a task that rewrites the file
		{Name: "P16-same-list-around-a-rewrite", ReqMax: 1, Tasks: []htask{{Name: "ta", Lits: []string{"g.txt"}}, {Name: "tm", Deps: []string{"ta"}, EffFile: 1, EffVal: "gen"}, {Name: "tb", Deps: []string{"tm"}, Lits: []string{"g.txt"}}},
			Files: []hfile{globf("g.txt", "v0", "gen")}},
		// ... where the rewrite depends on another input (a generated file derived from a source file)
		{Name: "P17-derived-file-between-equal-lists", ReqMax: 1, Tasks: []htask{{Name: "ta", Lits: []string{"gen.txt"}}, {Name: "tm", Deps: []string{"ta"}, Lits: []string{"src.txt"}, EffFile: 2, EffFrom: 1}, {Name: "tb", Deps: []string{"tm"}, Lits: []string{"gen.txt"}}},
			Files: []hfile{lit("src.txt"), lit("gen.txt")}},
		// a generated file that is a DECLARED output of its generator and matched by the consumer's glob
		{Name: "P19-declared-output-is-a-glob-match", ReqMax: 1, Tasks: []htask{{Name: "ta", Lits: []string{"seed.txt"}, EffFile: 2, EffFrom: 1, Outs: []string{"g.src"}}, {Name: "tb", Deps: []string{"ta"}, Globs: []string{"*.src"}}},
			Files: []hfile{lit("seed.txt"), lit("g.src"), globf("x.src", "v0")}},
		{Name: "P15-independent-generator", Tasks: []htask{{Name: "ta", EffFile: 2, EffVal: "gen"}, {Name: "tb", Globs: []string{"*.src"}}},
			Files: []hfile{globf("x.src", "v0", "v1"), globf("g.src", absent, "gen")}},
		// the spokfile itself changes between invocations: a task is removed, comes back, is renamed
		{Name: "P18-spokfile-edited", ReqMax: 1, Tasks: []htask{{Name: "ta", Lits: []string{"a.txt"}}, {Name: "tb", Lits: []string{"b.txt"}}, {Name: "tc", Lits: []string{"b.txt"}}},
			Variants: [][]int{{0, 1}, {0}, {0, 2}}, Files: []hfile{globf("a.txt", "v0"), lit("b.txt")}},
		// dependencies that are symbolic links to files kept elsewhere: the content behind the link is the input
		{Name: "P20-symlinked-inputs", Tasks: []htask{{Name: "ta", Lits: []string{"in.txt"}}, {Name: "tb", Globs: []string{"src/*.txt"}}},
			Files: []hfile{lit("data/real.txt"), lit("data/other.txt"), globf("src/plain.txt", "v0")}, Links: []hlink{{"in.txt", 0}, {"src/l.txt", 1}}},
		// a generator, a bystander that is up to date, and a consumer of the generator's glob match, all independent
		{Name: "P21-generator-bystander-consumer", Tasks: []htask{{Name: "ta", EffFile: 2, EffVal: "gen"}, {Name: "ty", Lits: []string{"y.txt"}}, {Name: "tb", Globs: []string{"*.src"}}},
			Files: []hfile{globf("x.src", "v0"), globf("g.src", absent, "gen"), globf("y.txt", "v0")}},
		// a generator that declares one output and also writes an undeclared file, into a directory whose glob already matches
		{Name: "P22-undeclared-file-beside-declared-output", ReqMax: 1, Tasks: []htask{{Name: "ta", Lits: []string{"seed.txt"}, EffFile: 2, EffVal: "gen", Outs: []string{"gen/api.c"}}, {Name: "tb", Deps: []string{"ta"}, Globs: []string{"include/*.h"}}},
			Files: []hfile{lit("seed.txt"), globf("include/api.h", absent, "gen"), globf("include/old.h", "v0")}},
		// task names that a cache file might use for its own bookkeeping
		{Name: "P23-bookkeeping-names", Tasks: []htask{{Name: "version", Lits: []string{"a.txt"}}, {Name: "cache", Lits: []string{"a.txt"}}}, Files: []hfile{lit("a.txt")}},
		// a literal dependency whose name has pattern characters but no star
		{Name: "P24-literal-with-brackets", Tasks: []htask{{Name: "ta", Lits: []string{"p[id].txt", "b.txt"}}, {Name: "tb", Lits: []string{"q{a,b}?.txt"}}}, Files: []hfile{lit("p[id].txt"), lit("b.txt"), lit("q{a,b}?.txt")}},
		// the spokfile is edited so that a task loses and regains its file dependency
		{Name: "P25-dependency-list-edited", ReqMax: 1, Tasks: []htask{{Name: "ta", Lits: []string{"cfg.txt"}}, {Name: "ta"}, {Name: "ta", Globs: []string{"*.cfg"}}},
			Variants: [][]int{{0}, {1}, {2}}, Files: []hfile{lit("cfg.txt"), globf("x.cfg", "v0", "v1")}},
		// a task without commands (it only groups dependencies) next to an ordinary one
		{Name: "P26-task-without-commands", Tasks: []htask{{Name: "te", Lits: []string{"e.txt"}, Empty: true}, {Name: "ta", Deps: []string{"te"}, Lits: []string{"a.txt"}}}, Files: []hfile{lit("e.txt"), lit("a.txt")}},
		// two dependencies whose names differ only in letter case
		{Name: "P27-names-differing-in-case", Tasks: []htask{{Name: "ta", Lits: []string{"cfg.h", "Cfg.h"}}, {Name: "tb", Globs: []string{"*.H"}}}, Files: []hfile{lit("cfg.h"), lit("Cfg.h"), globf("x.H", "v0"), globf("x.h", "v0", "v1")}},
		// a generator that leaves the modification time of the directory as it found it
		{Name: "P28-generator-keeps-directory-time", Tasks: []htask{{Name: "ta", EffFile: 2, EffVal: "gen", KeepMtime: true}, {Name: "tb", Globs: []string{"*.src"}}},
			Files: []hfile{globf("x.src", "v0"), globf("g.src", absent, "gen")}},
		// a pattern that at times matches only a directory, at times nothing, at times a file
		{Name: "P29-pattern-matching-a-directory", Tasks: []htask{{Name: "ta", Globs: []string{"out/*"}}}, Files: []hfile{globf("out/sub", absent, dirVal), globf("out/x", absent, "v0")}},
		{Name: "P8-three-tasks", Tasks: []htask{{Name: "ta", Lits: []string{"a.txt"}}, {Name: "tb", Lits: []string{"b.txt"}}, {Name: "tc", Deps: []string{"ta", "tb"}}}, Files: []hfile{lit("a.txt"), lit("b.txt")}},
	}
}

// histAllSmall: every program with <= 2 tasks over the dependency alphabet
// {literal a.txt, literal b.txt, glob *.src, glob sub/*.src} (+ tb may depend on ta).
func histAllSmall() []hprog {
	type depset struct {
		lits, globs []string
	}
	var sets []depset
	for m := 0; m < 16; m++ {
		var d depset
		if m&1 != 0 {
			d.lits = append(d.lits, "a.txt")
		}
		if m&2 != 0 {
			d.lits = append(d.lits, "b.txt")
		}
		if m&4 != 0 {
			d.globs = append(d.globs, "*.src")
		}
		if m&8 != 0 {
			d.globs = append(d.globs, "sub/*.src")
		}
		sets = append(sets, d)
	}
	files := func(ds ...depset) []hfile {
		var fs []hfile
		has := map[string]bool{}
		add := func(f hfile) {
			if !has[f.Path] {
				has[f.Path] = true
				fs = append(fs, f)
			}
		}
		for _, d := range ds {
			for _, l := range d.lits {
				add(lit(l))
			}
			for _, g := range d.globs {
				if g == "*.src" {
					add(globf("x.src", absent, "v0", "v1"))
				} else {
					add(globf("sub/y.src", absent, "v0", "v1"))
				}
			}
		}
		return fs
	}
	var out []hprog
	for i, a := range sets {
		if i > 0 {
			out = append(out, hprog{Name: fmt.Sprintf("S1-%d", i), Tasks: []htask{{Name: "ta", Lits: a.lits, Globs: a.globs}}, Files: files(a)})
		}
		for j, b := range sets {
			if i == 0 && j == 0 {
				continue
			}
			// pairs are built over {a.txt, *.src, sub/*.src}: the second literal adds nothing a pair
			// of tasks does not already show (P3, P6, P10 cover two literals) and quadruples the family
			if i&2 != 0 || j&2 != 0 {
				continue
			}
			for chain := 0; chain < 2; chain++ {
				if chain == 0 && j < i {
					continue // symmetric to (j,i) when the tasks are independent
				}
				tb := htask{Name: "tb", Lits: b.lits, Globs: b.globs}
				if chain == 1 {
					tb.Deps = []string{"ta"}
				}
				out = append(out, hprog{Name: fmt.Sprintf("S2-%d-%d-%d", i, j, chain), Tasks: []htask{{Name: "ta", Lits: a.lits, Globs: a.globs}, tb}, Files: files(a, b)})
			}
		}
	}
	return out
}

func histPrograms(tier string) []hprog {
	p := histCatalogue()
	// programs whose run ops are also explored under every iteration order of spok's own maps
	// (quick: two-task programs where the tasks share patterns or one task's commands change what the
	// other's patterns match; thorough: every catalogue program with exactly two tasks)
	quickOrd := map[string]bool{"P11-rewrites-shared-input": true, "P13-shared-glob-own-files": true, "P14-generates-glob-match": true,
		"P28-generator-keeps-directory-time": true}
	for i := range p {
		// (three-task programs multiply the invocations by about ten and would run into the worker
		// budget of the thorough tier, which would turn completed programs into capped ones)
		if dagControlled && len(p[i].Tasks) >= 2 && (quickOrd[p[i].Name] || (tier == "thorough" && len(p[i].Tasks) == 2)) {
			p[i].FileOrd = true
		}
	}
	if tier == "thorough" {
		p = append(p, histAllSmall()...)
	}
	return p
}

// ---------------------------------------------------------------------------
// states

type hdisk struct {
	Files    []string `json:"files"`
	SpokDir  bool     `json:"spokdir"`
	HasCache bool     `json:"hascache"`
	Cache    string   `json:"cache"`
	// Extra: any other file inside .spok (besides cache.json, .gitignore, CACHEDIR.TAG), e.g. a
	// temporary or backup file an implementation may keep there; "name=content" sorted
	Extra []string `json:"extra,omitempty"`
	// Var: which variant of the spokfile is in the project (see hprog.Variants)
	Var int `json:"var,omitempty"`
}

func (d hdisk) key() string {
	return strings.Join(d.Files, "|") + fmt.Sprintf("#%v#%v#", d.SpokDir, d.HasCache) + d.Cache + "#" + strings.Join(d.Extra, "\x00") + "#" + strconv.Itoa(d.Var)
}

type hmodel struct {
	Last     []string `json:"last"`      // per task: "\x00" = never / removed, else snapshot of its inputs when its last successful run started
	LastPost []string `json:"last_post"` // ... and when that run's commands had completed (differs only if the commands rewrite an input)
	Failed   []string `json:"failed"`    // per task: snapshot of inputs at the last failure since the last success, or "\x00"
	// Unrec: "1" if the last success happened in a run during which the environment kept spok from
	// writing its cache (and spok reported that error): the "unchanged => skipped" direction cannot bind then
	Unrec []string `json:"unrec,omitempty"`
	// Maybe: for a task without commands, the inputs it MAY have completed on unobserved (it was part of a
	// run that ended in an error, so spok reported nothing and there is no command to leave a trace):
	// a later skip on those inputs is not held against spok. Alternatives separated by "\x04".
	Maybe []string `json:"maybe,omitempty"`
}

const none = "\x00"

func (m hmodel) key() string {
	return strings.Join(m.Last, "\x01") + "\x02" + strings.Join(m.Failed, "\x01") + "\x02" + strings.Join(m.Maybe, "\x01")
}

func maybeHas(m []string, si int, now string) bool {
	if si >= len(m) || m[si] == "" || m[si] == none {
		return false
	}
	for _, a := range strings.Split(m[si], "\x04") {
		if a == now {
			return true
		}
	}
	return false
}

type hop struct {
	Kind  string   `json:"kind"` // edit | run | rmcache
	File  int      `json:"file,omitempty"`
	Val   string   `json:"val,omitempty"`
	Req   []string `json:"req,omitempty"`
	Force bool     `json:"force,omitempty"`
	Fail  []string `json:"fail,omitempty"`
	Rm    string   `json:"rm,omitempty"`    // dir | file
	Fault string   `json:"fault,omitempty"` // ro-cache: .spok/cache.json cannot be written during this run
}

func (o hop) String() string {
	switch o.Kind {
	case "none":
		return "(no edit)"
	case "spokfile":
		return fmt.Sprintf("edit spokfile to variant %d", o.File)
	case "edit":
		return fmt.Sprintf("set[%d]=%s", o.File, o.Val)
	case "rmcache":
		return "rmcache(" + o.Rm + ")"
	}
	s := "run " + strings.Join(o.Req, " ")
	if o.Force {
		s += " --force"
	}
	if len(o.Fail) > 0 {
		s += " failing=" + strings.Join(o.Fail, ",")
	}
	if o.Fault != "" {
		s += " fault=" + o.Fault
	}
	return s
}

func histOps(p hprog, d hdisk, withForce bool) []hop {
	var ops []hop
	for i, f := range p.Files {
		for _, v := range f.Vals {
			if v != d.Files[i] {
				ops = append(ops, hop{Kind: "edit", File: i, Val: v})
			}
		}
	}
	var names []string
	for i, t := range p.Tasks {
		if p.present(d.Var, i) {
			names = append(names, t.Name)
		}
	}
	for v := range p.Variants {
		if v != d.Var {
			ops = append(ops, hop{Kind: "spokfile", File: v})
		}
	}
	var reqs [][]string
	var rec func(cur []string)
	rec = func(cur []string) {
		if len(cur) > 0 {
			reqs = append(reqs, append([]string{}, cur...))
		}
		if p.ReqMax > 0 && len(cur) >= p.ReqMax {
			return
		}
		for _, n := range names {
			dup := false
			for _, c := range cur {
				if c == n {
					dup = true
				}
			}
			if !dup {
				rec(append(cur, n))
			}
		}
	}
	rec(nil)
	fails := [][]string{nil}
	for _, n := range names {
		fails = append(fails, []string{n})
	}
	if len(names) > 1 {
		fails = append(fails, names)
	}
	for _, r := range reqs {
		if d.HasCache && len(r) == 1 {
			// environment fault: the cache file cannot be written while this run is going on
			ops = append(ops, hop{Kind: "run", Req: r, Fault: "ro-cache"})
			if withForce {
				ops = append(ops, hop{Kind: "run", Req: r, Fault: "ro-cache", Force: true})
			}
		}
		for _, f := range fails {
			ops = append(ops, hop{Kind: "run", Req: r, Fail: f})
			if withForce {
				ops = append(ops, hop{Kind: "run", Req: r, Fail: f, Force: true})
			}
		}
	}
	if d.SpokDir {
		ops = append(ops, hop{Kind: "rmcache", Rm: "dir"})
	}
	if d.HasCache {
		ops = append(ops, hop{Kind: "rmcache", Rm: "file"})
	}
	return ops
}

// inputsNow: the reference meaning of "the files named by the task's file and glob
// dependencies (paths and contents)".
func inputsNow(p hprog, t htask, d hdisk) string {
	var items []string
	present := map[string]string{}
	for i, f := range p.Files {
		// a directory that a name or a pattern matches is not an input: only regular files are hashed
		if d.Files[i] != absent && d.Files[i] != dirVal {
			present[f.Path] = d.Files[i]
		}
	}
	for _, l := range p.Links {
		// a dependency that is a symbolic link names the file it points to
		if d.Files[l.File] != absent && d.Files[l.File] != dirVal {
			present[l.Path] = d.Files[l.File]
		}
	}
	seen := map[string]bool{}
	for _, l := range t.Lits {
		if v, ok := present[l]; ok && !seen[l] {
			seen[l] = true
			items = append(items, l+"="+v)
		}
	}
	for _, g := range t.Globs {
		for path, v := range present {
			if strings.HasPrefix(path, ".") || seen[path] {
				continue
			}
			if ok, _ := doublestar.Match(g, path); ok {
				seen[path] = true
				items = append(items, path+"="+v)
			}
		}
	}
	sort.Strings(items)
	return strings.Join(items, ";")
}

func declaresFiles(t htask) bool { return len(t.Lits)+len(t.Globs) > 0 }

// ---------------------------------------------------------------------------
// execution of one op on one disk state (all iteration orders)

type hexec struct {
	Disk   hdisk       `json:"disk"`
	Out    proj.RunOut `json:"out"`
	Choice []int       `json:"choice"`
}

func materialise(sb *proj.Sandbox, p hprog, d hdisk) {
	sb.ResetProject()
	for i, f := range p.Files {
		if d.Files[i] == absent {
			continue
		}
		full := filepath.Join(sb.Dir, f.Path)
		os.MkdirAll(filepath.Dir(full), 0o755)
		if d.Files[i] == dirVal {
			os.MkdirAll(full, 0o755)
			continue
		}
		os.WriteFile(full, []byte(d.Files[i]+"\n"), 0o644)
	}
	for _, l := range p.Links {
		full := filepath.Join(sb.Dir, l.Path)
		os.MkdirAll(filepath.Dir(full), 0o755)
		target, _ := filepath.Rel(filepath.Dir(full), filepath.Join(sb.Dir, p.Files[l.File].Path))
		os.Symlink(target, full)
	}
	if d.SpokDir {
		sp := filepath.Join(sb.Dir, ".spok")
		os.MkdirAll(sp, 0o755)
		os.WriteFile(filepath.Join(sp, ".gitignore"), []byte("*\n"), 0o644)
		os.WriteFile(filepath.Join(sp, "CACHEDIR.TAG"), []byte("Signature: 8a477f597d28d172789f06886806bc55"), 0o644)
		if d.HasCache {
			os.WriteFile(filepath.Join(sp, "cache.json"), []byte(d.Cache), 0o644)
		}
		for _, e := range d.Extra {
			if i := strings.IndexByte(e, '='); i > 0 {
				os.WriteFile(filepath.Join(sp, e[:i]), []byte(e[i+1:]), 0o644)
			}
		}
	}
}

func readDisk(sb *proj.Sandbox, p hprog, before hdisk) hdisk {
	d := hdisk{Files: make([]string, len(p.Files)), Var: before.Var}
	for i, f := range p.Files {
		b, err := os.ReadFile(filepath.Join(sb.Dir, f.Path))
		if st, serr := os.Stat(filepath.Join(sb.Dir, f.Path)); serr == nil && st.IsDir() {
			d.Files[i] = dirVal
		} else if err != nil {
			d.Files[i] = absent
		} else {
			d.Files[i] = strings.TrimSuffix(string(b), "\n")
		}
	}
	if st, err := os.Stat(filepath.Join(sb.Dir, ".spok")); err == nil && st.IsDir() {
		d.SpokDir = true
		if b, err := os.ReadFile(filepath.Join(sb.Dir, ".spok", "cache.json")); err == nil {
			d.HasCache = true
			d.Cache = string(b)
		}
		if ents, err := os.ReadDir(filepath.Join(sb.Dir, ".spok")); err == nil {
			for _, e := range ents {
				n := e.Name()
				if n == "cache.json" || n == ".gitignore" || n == "CACHEDIR.TAG" || e.IsDir() {
					continue
				}
				b, _ := os.ReadFile(filepath.Join(sb.Dir, ".spok", n))
				d.Extra = append(d.Extra, n+"="+string(b))
			}
			sort.Strings(d.Extra)
		}
	}
	return d
}

// fileOrderHook answers the map iterations of file/file.go from the chooser: any permutation, but
// once one iteration of this execution has departed from sorted order the later ones keep it
// (deviation bound 1), which keeps the number of executions linear in the number of iterations.
func fileOrderHook(c *choose.Chooser) func(n int) []int {
	deviated := false
	return func(n int) []int {
		if deviated {
			id := make([]int, n)
			for i := range id {
				id[i] = i
			}
			return id
		}
		p := c.Perm(n)
		for i, v := range p {
			if v != i {
				deviated = true
			}
		}
		fileOrderPoints++
		return p
	}
}

// fileOrderPoints counts the controlled map iterations answered (for the evidence).
var fileOrderPoints int

// histRealRuns counts the in-process spok invocations made by execRun.
var histRealRuns int64

// execRun runs a run-op under every iteration order; distinct outcomes only.
func execRun(sb *proj.Sandbox, p hprog, text string, d hdisk, op hop) []hexec {
	text = p.textOf(d.Var)
	var outs []hexec
	seen := map[string]bool{}
	reps := 1
	if p.Reps > 1 {
		reps = p.Reps
	}
	cachePath := filepath.Join(sb.Dir, ".spok", "cache.json")
	var rec func(prefix []int)
	rec = func(prefix []int) {
		var c *choose.Chooser
		for rep := 0; rep < reps; rep++ {
			c = choose.NewReplay(prefix)
			setDagOrder(func(n int) []int { return c.Perm(n) })
			if p.FileOrd {
				setFileOrder(fileOrderHook(c))
			}
			materialise(sb, p, d)
			sb.SetFailing(op.Fail, p.taskNames())
			if op.Fault == "ro-cache" {
				os.Chmod(cachePath, 0o444)
			}
			out := sb.Run(text, op.Force, op.Req...)
			histRealRuns++
			setDagOrder(nil)
			setFileOrder(nil)
			if op.Fault == "ro-cache" {
				os.Chmod(cachePath, 0o644)
			}
			nd := readDisk(sb, p, d)
			k := nd.key() + string(pool.MustJSON(out))
			if !seen[k] {
				seen[k] = true
				outs = append(outs, hexec{Disk: nd, Out: out, Choice: append([]int{}, c.Taken...)})
			}
		}
		for i := len(prefix); i < len(c.Taken); i++ {
			for alt := 1; alt < c.Width[i]; alt++ {
				rec(append(append([]int{}, c.Taken[:i]...), alt))
			}
		}
	}
	rec(nil)
	return outs
}

func applyEdit(d hdisk, op hop) hdisk {
	nd := d
	nd.Files = append([]string{}, d.Files...)
	switch op.Kind {
	case "spokfile":
		nd.Var = op.File
	case "edit":
		nd.Files[op.File] = op.Val
	case "rmcache":
		if op.Rm == "dir" {
			nd.SpokDir, nd.HasCache, nd.Cache, nd.Extra = false, false, "", nil
		} else {
			nd.HasCache, nd.Cache = false, ""
		}
	}
	return nd
}

// ---------------------------------------------------------------------------
// oracles

type hviol struct {
	Prop  string
	Class string
	What  string
}

func markers(log []string, t string) (first, last bool) {
	for _, l := range log {
		if l == t+":1" {
			first = true
		}
		if l == t+":3" {
			last = true
		}
	}
	return
}

// evalRun checks one run execution against the model and returns the new model.
// The run is re-played task by task over a copy of the disk, applying the declared
// effects of task commands, so that "the inputs of t when it ran / was skipped" is
// exact even when an earlier task of the same run rewrote them.
func evalRun(p hprog, d hdisk, m hmodel, op hop, ex hexec) (hmodel, []hviol) {
	var vs []hviol
	failing := map[string]bool{}
	for _, f := range op.Fail {
		failing[f] = true
	}
	idx := map[string]int{}
	for i, t := range p.Tasks {
		if p.present(d.Var, i) {
			idx[t.Name] = i
		}
	}
	out := ex.Out
	if out.Panic != "" {
		vs = append(vs, hviol{"*", "panic", out.Panic})
	}
	nm := hmodel{Last: append([]string{}, m.Last...), LastPost: append([]string{}, m.LastPost...), Failed: append([]string{}, m.Failed...), Unrec: append([]string{}, m.Unrec...), Maybe: append([]string{}, m.Maybe...)}
	for len(nm.Unrec) < len(p.Tasks) {
		nm.Unrec = append(nm.Unrec, "0")
	}
	for len(nm.Maybe) < len(p.Tasks) {
		nm.Maybe = append(nm.Maybe, none)
	}
	cur := hdisk{Files: append([]string{}, d.Files...)}
	// execute one task in the model: returns inputs before and after its commands
	exec := func(ti int) (pre, post string) {
		t := p.Tasks[ti]
		pre = inputsNow(p, t, cur)
		if t.EffFile > 0 {
			cur.Files[t.EffFile-1] = t.EffVal
			if t.EffFrom > 0 {
				cur.Files[t.EffFile-1] = cur.Files[t.EffFrom-1]
			}
		}
		post = inputsNow(p, t, cur)
		ti = p.slot(ti)
		if failing[t.Name] && !t.Empty { // a task without commands has nothing that could fail
			nm.Failed[ti] = pre
		} else {
			nm.Last[ti], nm.LastPost[ti], nm.Failed[ti], nm.Maybe[ti] = pre, post, none, none
			// if the environment kept spok from recording this success (and spok said so: the run ended
			// with an error) skip-soundness still binds, "unchanged => skipped" cannot
			nm.Unrec[ti] = "0"
			if op.Fault != "" && out.Failed() {
				nm.Unrec[ti] = "1"
			}
		}
		return
	}
	if out.Failed() {
		// nothing is reported; the model still learns what really ran, in order
		before := hdisk{Files: append([]string{}, cur.Files...)}
		for _, l := range out.Log {
			if strings.HasSuffix(l, ":1") {
				if ti, ok := idx[strings.TrimSuffix(l, ":1")]; ok {
					exec(ti)
				}
			}
		}
		// tasks without commands may have completed unobserved, before or after the effects of the others
		for name, ti := range idx {
			if p.Tasks[ti].Empty {
				_ = name
				si := p.slot(ti)
				set := map[string]bool{inputsNow(p, p.Tasks[ti], before): true, inputsNow(p, p.Tasks[ti], cur): true}
				if nm.Maybe[si] != none && nm.Maybe[si] != "" {
					for _, a := range strings.Split(nm.Maybe[si], "\x04") {
						set[a] = true
					}
				}
				var alts []string
				for a := range set {
					alts = append(alts, a)
				}
				sort.Strings(alts)
				nm.Maybe[si] = strings.Join(alts, "\x04")
			}
		}
		return nm, vs
	}
	for _, r := range out.Results {
		ti, ok := idx[r.Name]
		if !ok {
			continue
		}
		t := p.Tasks[ti]
		si := p.slot(ti)
		now := inputsNow(p, t, cur)
		ran, _ := markers(out.Log, t.Name)
		if t.Empty {
			ran = !r.Skipped // nothing else to go by
		}
		if r.Skipped {
			// C01: a reported skip must be backed by the last success
			if m.Last[si] == none && nm.Last[si] == none && maybeHas(nm.Maybe, si, now) {
				// a task without commands that may have completed, unobserved, in a run that ended in an error
			} else if m.Last[si] == none && nm.Last[si] == none {
				vs = append(vs, hviol{"C01", "skipped-never-succeeded", fmt.Sprintf("task %s reported skipped but it has not completed successfully since the cache was (re)created", t.Name)})
			} else if nm.Last[si] != now && nm.LastPost[si] != now && !maybeHas(nm.Maybe, si, now) {
				vs = append(vs, hviol{"C01", "skipped-on-different-inputs", fmt.Sprintf("task %s reported skipped with inputs {%s}, but it last completed successfully on {%s}", t.Name, now, nm.Last[si])})
			}
			if ran {
				vs = append(vs, hviol{"C02", "skipped-but-commands-ran", fmt.Sprintf("task %s reported skipped but its commands ran", t.Name)})
			}
			if op.Force {
				vs = append(vs, hviol{"C14", "skipped-under-force", fmt.Sprintf("task %s reported skipped in a forced run", t.Name)})
			}
		} else if !ran {
			vs = append(vs, hviol{"C02", "reported-run-but-no-command-ran", fmt.Sprintf("task %s reported as run but none of its commands executed", t.Name)})
		}
		if op.Force && !ran {
			vs = append(vs, hviol{"C14", "not-executed-under-force", fmt.Sprintf("task %s did not execute its commands in a forced run", t.Name)})
		}
		if !op.Force {
			// C02: unchanged since last success => skipped
			corner := nm.Failed[si] != none && nm.Failed[si] == now
			if declaresFiles(t) && now != "" && nm.Last[si] == now && nm.LastPost[si] == now && !corner && nm.Unrec[si] != "1" {
				if !r.Skipped || ran {
					vs = append(vs, hviol{"C02", "unchanged-task-rerun", fmt.Sprintf("task %s last completed successfully on exactly the current inputs {%s} but was run again (request %v)", t.Name, now, op.Req)})
				}
			}
			if !declaresFiles(t) && r.Skipped {
				vs = append(vs, hviol{"C02", "fileless-task-skipped", fmt.Sprintf("task %s has no file dependency but was skipped", t.Name)})
			}
		}
		if ran {
			exec(ti)
		}
	}
	return nm, vs
}

// ---------------------------------------------------------------------------
// search (inside one worker, one program)

type hstate struct {
	D      hdisk
	M      hmodel
	Parent int
	Op     hop
	Choice []int
	Depth  int
	Forced bool // a forced run lies on the BFS path
}

type histResult struct {
	Program         string           `json:"program"`
	States          int64            `json:"states"`
	DiskStates      int64            `json:"disk_states"`
	Transitions     int64            `json:"transitions"`
	Execs           int64            `json:"execs"`
	RealRuns        int64            `json:"real_runs"`       // spok invocations actually made by execRun (all iteration orders)
	FileOrdPoints   int64            `json:"file_ord_points"` // map iterations of file/file.go answered by the explorer
	RunTrans        int64            `json:"run_transitions"`
	SkipsSeen       int64            `json:"skips_seen"`
	MaxDepth        int              `json:"max_depth"`
	Capped          bool             `json:"capped"`
	Outcomes        map[string]int64 `json:"outcomes"`
	Viol            []ev.Violation   `json:"viol"`
	Sample          []string         `json:"sample"`
	Conform         int64            `json:"conform"`
	ConformBad      int64            `json:"conform_bad"`
	ForceFreeStates int64            `json:"force_free_states"`
}

func histInit(p hprog) hstate {
	d := hdisk{Files: make([]string, len(p.Files))}
	for i, f := range p.Files {
		d.Files[i] = f.Vals[0]
		if f.Vals[0] == absent && len(f.Vals) > 1 {
			d.Files[i] = f.Vals[0]
		}
	}
	m := hmodel{Last: make([]string, len(p.Tasks)), LastPost: make([]string, len(p.Tasks)), Failed: make([]string, len(p.Tasks))}
	for i := range m.Last {
		m.Last[i], m.LastPost[i], m.Failed[i] = none, none, none
	}
	return hstate{D: d, M: m, Parent: -1}
}

func tracePath(states []hstate, i int) []map[string]any {
	var rev []map[string]any
	for ; i >= 0 && states[i].Parent >= 0; i = states[i].Parent {
		rev = append(rev, map[string]any{"op": states[i].Op, "choice": states[i].Choice})
	}
	for l, r := 0, len(rev)-1; l < r; l, r = l+1, r-1 {
		rev[l], rev[r] = rev[r], rev[l]
	}
	return rev
}

func traceString(states []hstate, i int) string {
	var parts []string
	for _, s := range tracePath(states, i) {
		parts = append(parts, s["op"].(hop).String())
	}
	return strings.Join(parts, " ; ")
}

// histSearch explores the state graph of one program to closure.
// binExec performs a run op through the built spok binary (`spok [--force|-f] --json tasks...`).
func binExec(sb *proj.Sandbox, p hprog, text string, d hdisk, op hop, n int) (hexec, bool) {
	if os.Getenv("VERIF_SPOK") == "" || op.Fault != "" {
		return hexec{}, false
	}
	text = p.textOf(d.Var)
	materialise(sb, p, d)
	os.WriteFile(filepath.Join(sb.Dir, "spokfile"), []byte(text), 0o644)
	sb.SetFailing(op.Fail, p.taskNames())
	sb.ClearLog()
	args := append([]string{}, op.Req...)
	if op.Force {
		if n%2 == 0 {
			args = append(args, "--force")
		} else {
			args = append([]string{"-f"}, args...)
		}
	}
	args = append(args, "--json")
	o := bin.Run(sb.Dir, sb.Root, []string{"VLOG=" + sb.Log, "VCTL=" + sb.Ctl, "VPROJ=" + sb.Dir}, args...)
	var out proj.RunOut
	out.Log = sb.ReadLog()
	if o.Died() {
		out.Panic = fmt.Sprintf("spok binary died: signal=%s timeout=%v: %s", o.Signal, o.TimedOut, firstLines(o.Stderr, 4))
	} else if o.Exit != 0 {
		out.RunErr = "spok exited " + strconv.Itoa(o.Exit) + ": " + firstLine(strings.TrimSpace(o.Stderr))
	} else {
		var rep []struct {
			Task    string `json:"task"`
			Skipped bool   `json:"skipped"`
			Results []struct {
				Status int `json:"status"`
			} `json:"results"`
		}
		if err := json.Unmarshal([]byte(o.Stdout), &rep); err != nil {
			out.RunErr = "spok --json output is not JSON: " + clip(o.Stdout)
		}
		for _, r := range rep {
			tr := proj.TaskRes{Name: r.Task, Skipped: r.Skipped}
			for _, c := range r.Results {
				tr.Statuses = append(tr.Statuses, c.Status)
			}
			out.Results = append(out.Results, tr)
		}
	}
	nd := readDisk(sb, p, d)
	os.Remove(filepath.Join(sb.Dir, "spokfile"))
	return hexec{Disk: nd, Out: out, Choice: []int{-1}}, true
}

// sameObservation: the binary's outcome cannot be told apart from an in-process one
// (a failing command makes the binary exit non-zero without a report; the library still returns results).
func sameObservation(lib, bx hexec) bool {
	if lib.Disk.key() != bx.Disk.key() || strings.Join(lib.Out.Log, ",") != strings.Join(bx.Out.Log, ",") {
		return false
	}
	libFailed := lib.Out.Failed()
	for _, r := range lib.Out.Results {
		for _, st := range r.Statuses {
			if st != 0 {
				libFailed = true
			}
		}
	}
	if libFailed || bx.Out.Failed() {
		return libFailed == bx.Out.Failed() && bx.Out.Panic == ""
	}
	return string(pool.MustJSON(lib.Out.Results)) == string(pool.MustJSON(bx.Out.Results))
}

var binBudget int64 = 150

func histSearch(sb *proj.Sandbox, p hprog, prop string, cap int, withForce bool, forceFree map[string]bool) (histResult, map[string]int) {
	res := histResult{Program: p.Name, Outcomes: map[string]int64{}}
	text := p.text()
	init := histInit(p)
	states := []hstate{init}
	index := map[string]int{init.D.key() + "\x03" + init.M.key(): 0}
	memo := map[string][]hexec{}
	disks := map[string]bool{init.D.key(): true}
	// states reachable without any forced run (for C14's attribution): BFS order puts
	// force-free paths first only by depth, so track the flag per state (false if any path is force-free)
	for cur := 0; cur < len(states); cur++ {
		if len(states) > cap {
			res.Capped = true
			break
		}
		st := states[cur]
		if st.Depth > res.MaxDepth {
			res.MaxDepth = st.Depth
		}
		for _, op := range histOps(p, st.D, withForce) {
			var succs []hexec
			if op.Kind == "run" {
				mk := st.D.key() + "\x03" + string(pool.MustJSON(op))
				var ok bool
				if succs, ok = memo[mk]; !ok {
					succs = execRun(sb, p, text, st.D, op)
					res.Execs += int64(len(succs))
					// conformance of the command line: the same op through the built binary becomes
					// one more successor unless it is indistinguishable from an in-process outcome
					if res.Conform < binBudget {
						if bx, ok := binExec(sb, p, text, st.D, op, int(res.Conform)); ok {
							res.Conform++
							dup := false
							for _, ex := range succs {
								if sameObservation(ex, bx) {
									dup = true
								}
							}
							if !dup {
								res.ConformBad++
								succs = append(succs, bx)
							}
						}
					}
					memo[mk] = succs
				}
			} else {
				succs = []hexec{{Disk: applyEdit(st.D, op)}}
			}
			for _, ex := range succs {
				res.Transitions++
				nm := st.M
				var vs []hviol
				if op.Kind == "run" {
					res.RunTrans++
					nm, vs = evalRun(p, st.D, st.M, op, ex)
					for _, r := range ex.Out.Results {
						if r.Skipped {
							res.SkipsSeen++
						}
					}
					switch {
					case ex.Out.Failed():
						res.Outcomes["run-error"]++
					default:
						res.Outcomes["run-ok"]++
					}
				} else if op.Kind == "rmcache" {
					nm = hmodel{Last: make([]string, len(p.Tasks)), LastPost: make([]string, len(p.Tasks)), Failed: append([]string{}, st.M.Failed...), Unrec: append([]string{}, st.M.Unrec...)} // Maybe: gone with the cache
					for i := range nm.Last {
						nm.Last[i], nm.LastPost[i] = none, none
					}
				}
				ns := hstate{D: ex.Disk, M: nm, Parent: cur, Op: op, Choice: ex.Choice, Depth: st.Depth + 1, Forced: st.Forced || op.Force}
				k := ns.D.key() + "\x03" + ns.M.key()
				si, known := index[k]
				if !known {
					si = len(states)
					index[k] = si
					states = append(states, ns)
					disks[ns.D.key()] = true
				} else if !ns.Forced && states[si].Forced {
					states[si].Forced = false // also reachable without force
				}
				for _, v := range vs {
					// attribute: C14 takes its own classes plus skip-soundness damage that needs a forced run
					target := v.Prop
					if target == "*" {
						target = prop
					}
					if prop == "C14" && v.Prop == "C01" && forceFree != nil && (op.Force || !forceFree[st.D.key()+"\x03"+st.M.key()]) {
						// skip-soundness broken in a state that only forced runs can reach
						target = "C14"
					}
					if target != prop {
						continue
					}
					res.Outcomes["violation:"+v.Class]++
					if len(res.Viol) < 30 {
						tr := append(tracePath(states, cur), map[string]any{"op": op, "choice": ex.Choice})
						res.Viol = append(res.Viol, ev.Violation{Engine: "histmc",
							Key:   p.Name + ": " + traceString(states, cur) + " ; " + op.String(),
							Class: v.Class,
							What:  fmt.Sprintf("program %s, history [%s ; %s]: %s", p.Name, traceString(states, cur), op.String(), v.What),
							Case:  map[string]any{"program": p, "trace": tr, "prop": prop}})
						pool.Note(res.Viol[len(res.Viol)-1])
					}
				}
			}
		}
	}
	res.States = int64(len(states))
	res.DiskStates = int64(len(disks))
	if len(states) > 3 {
		res.Sample = append(res.Sample, p.Name+": "+traceString(states, len(states)-1))
	}
	return res, index
}

// worker: mc worker hist <prop> <tier> <programIndex>
func histWorker(args []string) {
	prop, tier := args[0], args[1]
	pi, _ := strconv.Atoi(args[2])
	p := histPrograms(tier)[pi]
	sb := proj.NewSandbox(os.Getenv("VERIF_SANDBOX"))
	cap := 60000
	if tier == "thorough" {
		cap = 400000
		binBudget = 1500
	}
	var forceFree map[string]bool
	if prop == "C14" {
		// first closure: the force-free sub-alphabet, to attribute damage to forced runs
		_, idx := histSearch(sb, p, "none", cap, false, nil)
		forceFree = map[string]bool{}
		for k := range idx {
			forceFree[k] = true
		}
	}
	res, _ := histSearch(sb, p, prop, cap, true, forceFree)
	res.ForceFreeStates = int64(len(forceFree))
	res.RealRuns, res.FileOrdPoints = histRealRuns, int64(fileOrderPoints)
	os.Stdout.Write(pool.MustJSON(res))
}

func histCheck(prop, tier string) int {
	run := ev.NewRun(prop, tier, "model_checking", "histmc")
	if !dagControlled {
		ev.Fatal("histmc needs the dag-controlled build variant")
	}
	progs := histPrograms(tier)
	var mu sync.Mutex
	var all []histResult
	pool.Parallel(len(progs), func(k int) {
		sbroot := filepath.Join(pool.Scratch, fmt.Sprintf("hist.%d", k))
		os.MkdirAll(sbroot, 0o777)
		pool.ChownNobody(sbroot)
		defer os.RemoveAll(sbroot)
		out := pool.RunWorker([]string{"hist", prop, tier, strconv.Itoa(k)}, nil, budget(tier), true, "VERIF_SANDBOX="+sbroot)
		if out.TimedOut && out.ExitCode != 3 {
			// the wall-clock budget ran out (a loaded machine, a slower tree): not a verdict about the property -
			// but what the worker had found by then is (it notes findings as it goes)
			for _, n := range out.Notes {
				var v ev.Violation
				if json.Unmarshal(n, &v) == nil && v.Class != "" {
					run.Report(v)
				}
			}
			run.Add("workers_out_of_budget", 1)
			run.Set("exhaustive", false)
			run.Set("cap", "a worker exceeded the wall-clock budget of this tier; its share of the space was not completed")
			return
		}
		if out.Crashed() {
			run.Report(ev.Violation{Key: "worker-crash " + progs[k].Name, Class: "process-crash",
				What: fmt.Sprintf("worker died (exit=%d signal=%s timeout=%v) exploring program %s: %s", out.ExitCode, out.Signal, out.TimedOut, progs[k].Name, firstLines(string(out.Stderr), 8)),
				Case: map[string]any{"program": progs[k]}})
			return
		}
		var r histResult
		if err := json.Unmarshal(out.Stdout, &r); err != nil {
			ev.Fatal("bad worker output: %v %s", err, out.Stderr)
		}
		mu.Lock()
		all = append(all, r)
		mu.Unlock()
		for _, v := range r.Viol {
			run.Report(v)
		}
	})
	if prop == "C14" {
		run.Set("default_task_force_invocations", c14DefaultForce(run))
	}
	var states, trans, execs, runs, skips, dstates, conform, conformNew, realRuns, fileOrdPoints int64
	outcomes := map[string]int64{}
	perProg := map[string]any{}
	exhaustive := true
	maxDepth := 0
	for _, r := range all {
		states += r.States
		trans += r.Transitions
		execs += r.Execs
		realRuns += r.RealRuns
		fileOrdPoints += r.FileOrdPoints
		runs += r.RunTrans
		skips += r.SkipsSeen
		dstates += r.DiskStates
		conform += r.Conform
		conformNew += r.ConformBad
		if r.Capped {
			exhaustive = false
		}
		if r.MaxDepth > maxDepth {
			maxDepth = r.MaxDepth
		}
		for k, v := range r.Outcomes {
			outcomes[k] += v
		}
		perProg[r.Program] = map[string]any{"states": r.States, "disk_states": r.DiskStates, "transitions": r.Transitions, "real_executions": r.Execs, "max_depth": r.MaxDepth, "capped": r.Capped}
		for _, s := range r.Sample {
			run.Sample(s)
		}
	}
	run.Set("states", states)
	run.Set("transitions", trans)
	run.Set("traces_validated_against_impl", trans)
	run.Set("evaluations", trans)
	run.Set("distinct_nontrivial", runs)
	run.Set("real_run_executions", execs)
	run.Set("spok_invocations_over_all_iteration_orders", realRuns)
	run.Set("file_map_iterations_answered_by_explorer", fileOrdPoints)
	var ordProgs []string
	for _, p := range progs {
		if p.FileOrd {
			ordProgs = append(ordProgs, p.Name)
		}
	}
	run.Set("programs_with_controlled_file_map_order", ordProgs)
	run.Set("disk_states", dstates)
	run.Set("binary_invocations_replayed", conform)
	run.Set("binary_outcomes_not_seen_in_process", conformNew)
	run.Set("run_transitions", runs)
	run.Set("skipped_results_checked", skips)
	run.Set("bfs_depth_reached", maxDepth)
	run.Set("outcomes", outcomes)
	run.Set("programs", len(progs))
	run.Set("per_program", perProg)
	run.Set("exhaustive", exhaustive)
	run.Set("rule", "explicit-state BFS to closure over (disk, reference model) states per program; transitions = ops {set file to a value (create/edit/revert/delete), run any ordered request list with/without --force with failing set in {none, each task, all}, remove .spok / remove cache.json}; every run transition is a real in-process spok invocation on the materialised disk, branched over every map-iteration order of the topological sort and, for the programs listed under programs_with_controlled_file_map_order, every iteration order of SpokFile.Tasks/Vars in file/file.go with at most one departure from sorted order per execution (memoised per (disk, op)); non-trivial = run transitions (each checked against the model)")
	run.Assumes("between invocations all state is on disk (files + .spok), so a state can be materialised instead of replayed", "task commands log to a harness-owned file: the model is updated from what really executed, not from spok's report",
		"the model: a task completed successfully iff its commands ran and it was not in the failing set; removing the cache forgets every success")
	return run.Finish()
}

func histReplay(path string) int {
	var v ev.Violation
	data, _ := os.ReadFile(path)
	json.Unmarshal(data, &v)
	var p hprog
	json.Unmarshal(pool.MustJSON(v.Case["program"]), &p)
	var trace []struct {
		Op     hop   `json:"op"`
		Choice []int `json:"choice"`
	}
	json.Unmarshal(pool.MustJSON(v.Case["trace"]), &trace)
	prop, _ := v.Case["prop"].(string)
	sb := proj.NewSandbox(filepath.Join(pool.Scratch, "replay"))
	st := histInit(p)
	text := p.text()
	fmt.Printf("replaying %s on program %s\n%s", prop, p.Name, text)
	bad := 0
	for i, s := range trace {
		fmt.Printf("step %d: %s\n", i+1, s.Op.String())
		text = p.textOf(st.D.Var)
		if s.Op.Kind != "run" {
			if s.Op.Kind == "rmcache" {
				for k := range st.M.Last {
					st.M.Last[k], st.M.LastPost[k] = none, none
				}
				st.M.Maybe = nil
			}
			st.D = applyEdit(st.D, s.Op)
			continue
		}
		var ex hexec
		if len(s.Choice) == 1 && s.Choice[0] == -1 {
			// this step was an invocation of the built binary
			fmt.Println("    (through the spok binary)")
			ex, _ = binExec(sb, p, text, st.D, s.Op, i)
		} else {
			c := choose.NewReplay(s.Choice)
			setDagOrder(func(n int) []int { return c.Perm(n) })
			materialise(sb, p, st.D)
			sb.SetFailing(s.Op.Fail, p.taskNames())
			if s.Op.Fault == "ro-cache" {
				os.Chmod(filepath.Join(sb.Dir, ".spok", "cache.json"), 0o444)
			}
			o := sb.Run(text, s.Op.Force, s.Op.Req...)
			setDagOrder(nil)
			if s.Op.Fault == "ro-cache" {
				os.Chmod(filepath.Join(sb.Dir, ".spok", "cache.json"), 0o644)
			}
			ex = hexec{Disk: readDisk(sb, p, st.D), Out: o, Choice: c.Taken}
		}
		out, nd := ex.Out, ex.Disk
		nm, vs := evalRun(p, st.D, st.M, s.Op, ex)
		for _, r := range out.Results {
			fmt.Printf("    task %s skipped=%v\n", r.Name, r.Skipped)
		}
		if out.Failed() {
			fmt.Printf("    error: %s\n", firstLine(out.ErrText()))
		}
		fmt.Printf("    commands executed: %v\n    cache: %s\n", out.Log, nd.Cache)
		for _, x := range vs {
			if i == len(trace)-1 {
				fmt.Printf("    %s %s: %s\n", x.Prop, x.Class, x.What)
				if x.Class == v.Class {
					bad++
				}
			}
		}
		st.D, st.M = nd, nm
	}
	if bad > 0 {
		fmt.Printf("VIOLATION property=%s replay=%s\n", v.Property, path)
		return 1
	}
	fmt.Println("no violation on replay")
	return 0
}

// c14DefaultForce: --force / -f given WITHOUT task names (the task named default is then
// selected implicitly), alone and together with --json / --quiet, after the cache has
// been filled: every task of the closure must execute.
func c14DefaultForce(run *ev.Run) int64 {
	root := filepath.Join(pool.Scratch, "c14bin")
	t := bin.Tree{Root: root}
	var calls int64
	for _, shape := range []string{"chain", "independent"} {
		for _, flags := range [][]string{{"--force"}, {"-f"}, {"--force", "--json"}, {"-f", "--quiet"}, {"--json", "-f"}, {"--force", "default"}, {"default", "-f"}} {
			for _, ambient := range []string{"", "environment", "dotenv"} {
				if ambient != "" && len(flags) > 1 && flags[1] != "default" {
					continue
				}
				t.Reset()
				proj := t.Mkdir("home/w/proj")
				ctl := t.Mkdir("ctl")
				dep := "dep, "
				if shape == "independent" {
					dep = ""
				}
				t.File("home/w/proj/spokfile", "task dep(\"a.txt\") {\n    echo dep >> \"$VLOG\"\n}\n\ntask default("+dep+"\"b.txt\") {\n    echo default >> \"$VLOG\"\n}\n")
				t.File("home/w/proj/a.txt", "a\n")
				t.File("home/w/proj/b.txt", "b\n")
				vlog := filepath.Join(ctl, "vlog")
				env := []string{"VLOG=" + vlog, "VCTL=" + ctl}
				// an environment (or .env file) that spells out the default of every switch: what the command line says still holds
				var spelled []string
				for _, f := range []string{"FORCE", "QUIET", "JSON", "DEBUG", "CLEAN", "FMT", "INIT", "SHOW", "VARS", "NO_FORCE"} {
					v := "0"
					if ambient == "dotenv" {
						v = "false"
					}
					if f == "NO_FORCE" {
						v = "1"
					}
					spelled = append(spelled, "SPOK_"+f+"="+v, f+"="+v)
				}
				switch ambient {
				case "environment":
					env = append(env, spelled...)
				case "dotenv":
					t.File("home/w/proj/.env", strings.Join(spelled, "\n")+"\n")
				}
				home := filepath.Join(root, "home")
				// fill the cache: everything is up to date afterwards
				bin.Run(proj, home, env, "dep", "default")
				o := bin.Run(proj, home, env, "dep", "default", "--json")
				calls += 2
				os.Remove(vlog)
				o = bin.Run(proj, home, env, flags...)
				calls++
				log := strings.Join(readLog(vlog), ",")
				want := "dep,default"
				if shape == "independent" {
					want = "default"
				}
				if o.Exit != 0 || log != want {
					run.Report(ev.Violation{Key: fmt.Sprintf("default-force %s %v %s", shape, flags, ambient), Class: "not-executed-under-force",
						What: fmt.Sprintf("spokfile with a task named default (%s); after an up-to-date run, `spok %s` (ambient settings: %q) executed [%s] (exit %d), expected [%s]: a forced run must execute every task of the closure", shape, strings.Join(flags, " "), ambient, log, o.Exit, want),
						Case: map[string]any{"shape": shape, "flags": flags, "ambient": ambient}})
				}
			}
		}
	}
	os.RemoveAll(root)
	return calls
}
