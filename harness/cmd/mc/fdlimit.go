//go:build vsched

package main

import (
	"encoding/json"
	"fmt"
	"os"
	"path/filepath"
	"runtime"
	"sort"
	"strconv"
	"syscall"
	"time"

	"verifharness/internal/ev"
	"verifharness/internal/pool"
)

// The limit on open file descriptors of the process is an environment answer like the
// number of usable CPUs: the same five lists are hashed in a fresh worker process under every
// soft limit of fdLimits (free-running, the hash package as built for this check). A shortage may
// turn a digest into an error, nothing else: never another digest, never a digest for a list with
// a file that cannot be opened, no crash, no hang, no goroutine left behind.

var fdLimits = []int{1024, 256, 64, 33, 32, 24, 17, 16, 15, 12, 8}

func init() {
	workers["fdlimit"] = fdlimitWorker
}

type fdObs struct {
	Digest string `json:"digest"`
	Err    string `json:"err"`
	Crash  string `json:"crash"`
}

type fdOut struct {
	Ref    map[string]fdObs `json:"ref"`
	Out    map[string]fdObs `json:"out"`
	Leaked int              `json:"leaked"`
	SetErr string           `json:"set_err"`
}

func fdLists(root string) (names []string, lists map[string][]string) {
	good := []string{filepath.Join(root, "a"), filepath.Join(root, "b"), filepath.Join(root, "c")}
	missing := filepath.Join(root, "nope")
	var many []string
	for i := 0; i < 40; i++ {
		many = append(many, filepath.Join(root, "many", fmt.Sprintf("f%02d", i)))
	}
	mid := append(append(append([]string{}, many[:20]...), missing), many[20:]...)
	lists = map[string][]string{
		"three files":                       good,
		"three files and a missing one":     append(append([]string{}, good...), missing),
		"a missing file":                    {missing},
		"forty files":                       many,
		"forty files, a missing one amidst": mid,
	}
	for k := range lists {
		names = append(names, k)
	}
	sort.Strings(names)
	return
}

func fdObserve(l []string) fdObs {
	d, err, crash := freeHash(l)
	o := fdObs{Digest: d, Crash: crash}
	if err != nil {
		o.Err = err.Error()
	}
	return o
}

// worker: mc worker fdlimit <root> <soft limit>
func fdlimitWorker(args []string) {
	root := args[0]
	limit, _ := strconv.Atoi(args[1])
	names, lists := fdLists(root)
	out := fdOut{Ref: map[string]fdObs{}, Out: map[string]fdObs{}}
	for _, n := range names {
		out.Ref[n] = fdObserve(lists[n])
	}
	before := runtime.NumGoroutine()
	var rl syscall.Rlimit
	if err := syscall.Getrlimit(syscall.RLIMIT_NOFILE, &rl); err != nil {
		out.SetErr = err.Error()
	} else {
		rl.Cur = uint64(limit)
		if rl.Cur > rl.Max {
			rl.Cur = rl.Max
		}
		if err := syscall.Setrlimit(syscall.RLIMIT_NOFILE, &rl); err != nil {
			out.SetErr = err.Error()
		}
	}
	if out.SetErr == "" {
		for _, n := range names {
			out.Out[n] = fdObserve(lists[n])
		}
		// everything the calls started must be gone (a goroutine that is left behind stays for good)
		deadline := time.Now().Add(10 * time.Second)
		for runtime.NumGoroutine() > before && time.Now().Before(deadline) {
			time.Sleep(10 * time.Millisecond)
		}
		out.Leaked = runtime.NumGoroutine() - before
	}
	os.Stdout.Write(pool.MustJSON(out))
}

// hashUnderFdLimits runs the worker once per limit and judges what it saw. Returns the number
// of Hash calls made under a lowered limit.
func hashUnderFdLimits(run *ev.Run) int64 {
	root := filepath.Join(pool.Scratch, "fdlimit")
	os.RemoveAll(root)
	os.MkdirAll(filepath.Join(root, "many"), 0o755)
	defer os.RemoveAll(root)
	for _, n := range []string{"a", "b", "c"} {
		os.WriteFile(filepath.Join(root, n), []byte("content of "+n), 0o644)
	}
	for i := 0; i < 40; i++ {
		os.WriteFile(filepath.Join(root, "many", fmt.Sprintf("f%02d", i)), []byte(fmt.Sprintf("file %d", i)), 0o644)
	}
	os.Chmod(root, 0o755)
	var calls int64
	var done []int
	for _, limit := range fdLimits {
		o := pool.RunWorker([]string{"fdlimit", root, strconv.Itoa(limit)}, nil, 5*time.Minute, true)
		c := map[string]any{"open_file_limit": limit}
		key := fmt.Sprintf("fdlimit %d", limit)
		var r fdOut
		if o.TimedOut {
			// a cap, not a verdict (the calls themselves are bounded by freeHash)
			run.Set("fdlimit_cap", fmt.Sprintf("worker for limit %d exceeded its budget", limit))
			continue
		}
		if o.Crashed() || json.Unmarshal(o.Stdout, &r) != nil {
			run.Report(ev.Violation{Key: key + " crash", Class: "process-dies-under-descriptor-limit",
				What: fmt.Sprintf("with at most %d open files the hashing process died (exit=%d signal=%s): %s", limit, o.ExitCode, o.Signal, firstLines(string(o.Stderr), 8)), Case: c})
			continue
		}
		if r.SetErr != "" {
			continue // the limit could not be set here: nothing was observed
		}
		done = append(done, limit)
		names, _ := fdLists(root)
		for _, n := range names {
			ref, got := r.Ref[n], r.Out[n]
			calls++
			cc := map[string]any{"open_file_limit": limit, "list": n}
			switch {
			case got.Crash != "":
				run.Report(ev.Violation{Key: key + " " + n + " crash", Class: "crash-or-hang-under-descriptor-limit", What: fmt.Sprintf("%s, at most %d open files: %s", n, limit, got.Crash), Case: cc})
			case ref.Crash != "":
				// reported by the ordinary passes
			case ref.Err != "" && got.Err == "":
				run.Report(ev.Violation{Key: key + " " + n + " swallowed", Class: "unopenable-file-yields-digest-under-descriptor-limit",
					What: fmt.Sprintf("%s: Hash reports %q normally, but with at most %d open files it returned the digest %.16s and no error", n, firstLine(ref.Err), limit, got.Digest), Case: cc})
			case ref.Err == "" && got.Err == "" && got.Digest != ref.Digest:
				run.Report(ev.Violation{Key: key + " " + n + " digest", Class: "digest-depends-on-descriptor-limit",
					What: fmt.Sprintf("%s: digest %.16s normally, %.16s with at most %d open files (same paths, same contents, no error)", n, ref.Digest, got.Digest, limit), Case: cc})
			}
		}
		if r.Leaked > 0 {
			run.Report(ev.Violation{Key: key + " leak", Class: "goroutine-leak-under-descriptor-limit",
				What: fmt.Sprintf("%d goroutines still alive 10 s after the Hash calls made with at most %d open files had returned", r.Leaked, limit), Case: c})
		}
	}
	run.Set("open_file_limits_explored", done)
	run.Set("hash_calls_under_lowered_open_file_limit", calls)
	return calls
}

// fdlimitReplay re-runs the worker of one recorded limit and prints what it sees now.
func fdlimitReplay(v ev.Violation, path string) int {
	limit := 0
	if f, ok := v.Case["open_file_limit"].(float64); ok {
		limit = int(f)
	}
	saved := fdLimits
	fdLimits = []int{limit}
	defer func() { fdLimits = saved }()
	run := ev.NewRun(v.Property, "replay", "model_checking", "schedmc")
	hashUnderFdLimits(run)
	n := run.NViolations()
	fmt.Printf("replaying %s: five lists hashed with at most %d open files: %d finding(s)\n", v.Property, limit, n)
	if n > 0 {
		fmt.Printf("VIOLATION property=%s replay=%s\n", v.Property, path)
		return 1
	}
	fmt.Println("no violation on replay")
	return 0
}
