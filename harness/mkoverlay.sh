#!/bin/bash
# mkoverlay.sh <dag|sched> <outdir>: writes <outdir>/overlay-<kind>.json for `go build -overlay`.
# Nothing in /repo or the module cache is modified; instrumented copies live in <outdir>.
set -eu
kind=$1; out=$2
H=$(cd "$(dirname "$0")" && pwd)
REPO=${REPO:-/repo}
export GOFLAGS=-mod=mod GOPROXY=off GOSUMDB=off GOTOOLCHAIN=local
mkdir -p "$out"

# the virtual package zzverif/vsched is part of every overlay
vs_entries=""
for f in "$H"/overlay/vsched/*.go; do
  [ -e "$f" ] || continue
  vs_entries="$vs_entries\"$REPO/zzverif/vsched/$(basename "$f")\": \"$f\","
done

case "$kind" in
dag)
  dagdir=$(cd "$REPO" && go list -m -f '{{.Dir}}' github.com/FollowTheProcess/collections)/dag
  python3 "$H/overlay/patch_dag.py" "$dagdir/dag.go" "$out/dag_controlled.go"
  if [ -n "${VERIF_NO_FILEPATCH:-}" ]; then cp "$REPO/file/file.go" "$out/file_controlled.go"; else
    python3 "$H/overlay/patch_file.py" "$REPO/file/file.go" "$out/file_controlled.go"; fi
  cat > "$out/overlay-dag.json" <<EOF
{"Replace": {${vs_entries} "$dagdir/dag.go": "$out/dag_controlled.go", "$REPO/file/file.go": "$out/file_controlled.go"}}
EOF
  ;;
sched)
  dagdir=$(cd "$REPO" && go list -m -f '{{.Dir}}' github.com/FollowTheProcess/collections)/dag
  python3 "$H/overlay/patch_dag.py" "$dagdir/dag.go" "$out/dag_controlled.go"
  mkdir -p "$out/rw"
  # the rewriter is built without any overlay (it only needs go/packages)
  (cd "$H" && go build ${MODFILE:+-modfile="$MODFILE"} -o "$out/rewrite" ./cmd/rewrite)
  entries=$("$out/rewrite" -repo "$REPO" -out "$out/rw" hash lexer file)
  cat > "$out/overlay-sched.json" <<EOF
{"Replace": {${vs_entries} ${entries} "$dagdir/dag.go": "$out/dag_controlled.go"}}
EOF
  ;;
*) echo "unknown overlay kind $kind" >&2; exit 2 ;;
esac
