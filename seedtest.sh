#!/bin/bash
# seedtest.sh <seed-id> <property> <source-dir> [extra-property...]
#   Confirms a seeded change (patch.diff + demo.sh in <source-dir>) in a scratch worktree:
#   clean tree -> demo passes; patched tree -> repository tests pass and demo fails.
#   Then applies it to /repo, runs the quick check(s), undoes it, and files everything
#   under /verif/seeded/<seed-id>/ (patch, demonstration, meta.json with what was run).
# seedtest.sh --recheck <seed-id> [tier]   re-runs the checks against an already filed seed.
set -u
VERIF=$(cd "$(dirname "$0")" && pwd)
export GOFLAGS=-mod=mod GOPROXY=off GOSUMDB=off GOTOOLCHAIN=local
REPO=/repo

run_checks() { # <seed dir> <tier> <props...>  -> writes detection.json, prints summary
  local sd=$1 tier=$2; shift 2
  local res="{"
  local target=$REPO
  if [ -n "${SEEDTEST_SCRATCH:-}" ]; then
    # exploratory mode: leave /repo alone (a background run may be using it), use a scratch worktree
    target=/tmp/sr-$$; git -C $REPO worktree remove --force $target 2>/dev/null; git -C $REPO worktree add -q --detach $target HEAD || return 2
  fi
  if ! git -C $target diff --quiet; then echo "refusing: $target has uncommitted changes" >&2; return 2; fi
  git -C $target apply "$sd/patch.diff" || { echo "patch does not apply to HEAD" >&2; [ $target != $REPO ] && git -C $REPO worktree remove --force $target; return 2; }
  for p in "$@"; do
    out=$(REPO=$target "$VERIF/check" "$p" "$tier" 2>&1); code=$?
    nv=$(echo "$out" | grep -c '^VIOLATION')
    cls=$(echo "$out" | grep -o 'violation class=[a-z0-9-]*' | sort | uniq -c | sort -rn | head -4 | awk '{print $3"("$1")"}' | sed 's/class=//' | tr '\n' ' ')
    echo "  $p $tier: exit=$code violations_printed=$nv classes: $cls"
    echo "$out" | grep -E "^  violation" | head -3 | cut -c1-400
    res="$res\"$p\": {\"tier\": \"$tier\", \"exit\": $code, \"violation_lines\": $nv, \"classes\": \"$cls\"},"
  done
  if [ $target = $REPO ]; then git -C $REPO checkout -- . ; git -C $REPO clean -fdq; else git -C $REPO worktree remove --force $target; fi
  # evidence files were rewritten by runs on a mutated tree: restore the committed ones
  git -C "$VERIF" checkout -- evidence 2>/dev/null
  if [ $target = $REPO ]; then echo "${res%,}}" > "$sd/detection.$tier.json"; fi
}

if [ "${1:-}" = "--recheck" ]; then
  id=$2; tier=${3:-quick}; sd=$VERIF/seeded/$id
  props=$(python3 -c "import json;m=json.load(open('$sd/meta.json'));print(' '.join(m.get('checks_run',[m['property']])))")
  run_checks "$sd" "$tier" $props
  exit 0
fi

id=$1; prop=$2; src=$3; shift 3
extra="$*"
sd=$VERIF/seeded/$id
mkdir -p "$sd"
cp "$src"/patch.diff "$sd/patch.diff" || exit 2
for f in "$src"/*; do case "$(basename "$f")" in patch.diff|meta.json|work|tmp) ;; *) cp -r "$f" "$sd/" ;; esac; done
wt=/tmp/sw-$id
git -C $REPO worktree remove --force "$wt" 2>/dev/null
git -C $REPO worktree add -q --detach "$wt" HEAD || exit 2
cleanup() { git -C $REPO worktree remove --force "$wt" 2>/dev/null; rm -rf "$wt"; }
trap cleanup EXIT
mkdir -p "$wt/_out/m1" "$wt/_out/m2"   # demonstrations may keep their scratch files there, as they did in the author's worktree
applies=true; demo_clean=-1; tests_ok=false; demo_patched=-1
( cd "$wt" && git apply --check "$sd/patch.diff" ) || applies=false
if $applies; then
  bash "$sd/demo.sh" "$wt" >"$sd/demo.clean.log" 2>&1; demo_clean=$?
  ( cd "$wt" && git checkout -q -- . && git clean -fdq -e _out )
  ( cd "$wt" && git apply "$sd/patch.diff" )
  if ( cd "$wt" && go build ./... && go test -vet=off -count=1 ./... ) >"$sd/tests.patched.log" 2>&1; then tests_ok=true; fi
  bash "$sd/demo.sh" "$wt" >"$sd/demo.patched.log" 2>&1; demo_patched=$?
fi
echo "seed $id ($prop): applies=$applies demo_clean_exit=$demo_clean tests_pass_patched=$tests_ok demo_patched_exit=$demo_patched"
cleanup; trap - EXIT
confirmed=false
if $applies && [ $demo_clean = 0 ] && $tests_ok && [ $demo_patched != 0 ]; then confirmed=true; fi
python3 - "$sd" "$src" "$prop" "$confirmed" "$demo_clean" "$demo_patched" "$tests_ok" "$extra" <<'EOF'
import json, sys, os
sd, src, prop, confirmed, dc, dp, tests, extra = sys.argv[1:9]
try:
    m = json.load(open(os.path.join(src, "meta.json")))
except Exception:
    m = {}
m["property"] = prop
m["confirmed"] = confirmed == "true"
m["what_was_run"] = {
    "scratch_worktree": "git worktree of /repo HEAD under /tmp, removed afterwards",
    "clean_tree_demo_exit": int(dc), "patched_tree_demo_exit": int(dp), "patched_tree_repo_tests_pass": tests == "true",
    "commands": ["git apply --check patch.diff", "bash demo.sh <worktree> (clean)", "git apply patch.diff", "go build ./... && go test -vet=off -count=1 ./...", "bash demo.sh <worktree> (patched)"],
}
m["checks_run"] = [prop] + [p for p in extra.split() if p]
json.dump(m, open(os.path.join(sd, "meta.json"), "w"), indent=1)
EOF
if ! $confirmed; then echo "  NOT CONFIRMED - not kept as a seed"; exit 1; fi
run_checks "$sd" quick $prop $extra
